// Command check is the driver: bin/check <ID> <quick|thorough>  |  bin/check --replay <file>
//
// exit 0: property held on everything explored (KNOWN-FINDING lines may be printed)
// exit 1: "VIOLATION property=<id> replay=<path>" printed
// exit 2: infrastructure trouble (build failure, timeout, flaky harness); never a verdict
package main

import (
	"bufio"
	"context"
	"crypto/sha256"
	"encoding/hex"
	"encoding/json"
	"fmt"
	"os"
	"os/exec"
	"path/filepath"
	"runtime"
	"sort"
	"strconv"
	"strings"
	"sync"
	"time"

	"verifharness/internal/evid"
)

type propCfg struct {
	id        string
	run       string // -test.run regex
	race      bool   // additionally run the race-built binary for tests matching raceRun
	raceRun   string
	noasmRun  string // tests run from the noasm-built binary after the main shards
	shards    int
	quickTO   time.Duration
	thorTO    time.Duration
	rule      string
	level     string
	assume    []string
	maxProcs  int // GOMAXPROCS per shard (0 = default 2)
	hangRerun bool
	fuzz      string        // native fuzz target run in the thorough tier
	fuzzTime  time.Duration // default 120 s
}

var defaultAssume = []string{
	"the reference oracle (refjson, math/big, encoding/json, strconv) is correct; oracle self-checks abort the run as exit 2 on disagreement",
	"go toolchain, race detector and pgregory.net/rapid v1.3.0 behave as documented",
	"absence of a counter-example in the generated cases, not a proof of absence",
}

func cfgs() map[string]*propCfg {
	m := map[string]*propCfg{}
	add := func(c *propCfg) {
		if c.shards == 0 {
			c.shards = 16
		}
		if c.quickTO == 0 {
			c.quickTO = 10 * time.Minute
		}
		if c.thorTO == 0 {
			c.thorTO = 60 * time.Minute
		}
		if c.level == "" {
			c.level = "exploration"
		}
		if c.run == "" {
			c.run = "^Test" + c.id + "(_|$)"
		}
		c.assume = append(append([]string{}, defaultAssume...), c.assume...)
		m[c.id] = c
	}
	add(&propCfg{id: "C01", fuzz: "FuzzC01", rule: "cases: grammar-generated valid documents with layout control, 1-3 byte/token mutations of them and of repository documents, exhaustive small-alphabet strings, positional sweeps of ~250 atoms over block/buffer/8KiB offsets; each run on {AVX-512,AVX2} x {copy,no-copy}. Non-trivial: the reference oracle's verdict is MUST-ACCEPT or MUST-REJECT (EITHER cases are counted separately and never judged); distinct by FNV-64 of the input bytes."})
	add(&propCfg{id: "C02", rule: "cases: constructed abstract documents (tiny/medium/wide/deep/key-collision/string-heavy/number-heavy profiles) rendered with generated white space and boundary alignment; walkers W1-W5 must reproduce the constructed document. Non-trivial: >=2 nesting levels, or a duplicate key, or the text crosses a 64-byte/1408-index/8KiB boundary; distinct by FNV-64 of the text."})
	add(&propCfg{id: "C03", rule: "cases: number literals from the JSON grammar (exhaustive short literals over a reduced alphabet, int64/uint64 boundary pools, halfway cases, subnormals, random 1-25 digit integers, perturbed shortest renderings of random doubles) as array element and object value with every terminator; oracle math/big. Non-trivial: literal not of the form -?[1-9][0-9]{0,3}; distinct by literal+context."})
	add(&propCfg{id: "C04", rule: "cases: strings built from pieces (ASCII, 2/3/4-byte UTF-8, 8 short escapes, \\uXXXX in any hex case, surrogate pairs, invalid escapes) placed at controlled offsets modulo 64 and distances to the end of input, as array element, key and value, in copy and no-copy mode on both kernels; expected bytes are constructive. Non-trivial: >=1 escape or multi-byte rune or the string crosses a 32-byte window; distinct by (text, offset)."})
	add(&propCfg{id: "C05", fuzz: "FuzzC05", hangRerun: true, rule: "cases: random bytes, token soup, truncations and 1-5 mutations of valid documents and repository documents, dense structural runs of every length around 8 KiB, deep nesting, sizes around internal buffer boundaries; Parse and ParseND, fresh and reused, both kernels and string modes, with guard-page placement. Non-trivial: input has >=2 structural characters or is a mutation of a valid document; distinct by FNV-64 of the bytes."})
	add(&propCfg{id: "C06", fuzz: "FuzzC06", rule: "cases: union of the C01 and C05 generators plus carry-state stress inputs, Parse and ParseND, each parsed with the AVX-512 and AVX2 kernels; outcome, tape and string buffer compared word for word. Non-trivial: input >= 65 bytes or with a partial last block and accepted by a kernel or mutated from a valid document; distinct by FNV-64 of the bytes."})
	add(&propCfg{id: "C07", race: true, raceRun: "^TestC07R", hangRerun: true, rule: "cases: documents > 8 KiB (valid, stage-1-invalid, stage-2-invalid) needing 3..120 index buffers x forced schedules of the producer/consumer hand-off (producer-greedy, consumer-greedy, bursts, random) driven through verif-tag hooks, plus un-gated runs under -race with injected yields. Non-trivial: run used more buffers than ring slots and reached a full ring or an empty channel with the consumer blocked; distinct by (text hash, decision list hash)."})
	add(&propCfg{id: "C08", fuzz: "FuzzC08", rule: "cases: line sequences (valid/invalid documents, blank and white-space-only lines, LF/CRLF, final newline or not, two documents on one line, a document split over lines, counts up to tens of thousands); expected outcome computed per line with Parse and the reference oracle. Non-trivial: >=2 non-blank lines and (a blank line or CRLF or an invalid line or a buffer boundary hit); distinct by FNV-64 of the bytes."})
	add(&propCfg{id: "C09", hangRerun: true, rule: "cases: well-formed NDJSON streams x partitions into Read results (1 byte .. one giant read, line-aligned and mid-token) x result-channel capacity x reuse-channel use x GOMAXPROCS, plus reader errors injected at byte offsets (every offset for short streams). Non-trivial: >=2 chunks were produced and a fragment boundary fell inside a token or a blank-only fragment occurred; distinct by (stream hash, partition hash)."})
	add(&propCfg{id: "C10", rule: "cases: parsed documents (single and ND), optionally edited in place at value positions, marshalled from root and inner iterators, Array and Elements; output checked by the reference parser against the model, then re-parsed for the fixed point. Non-trivial: >=1 string needing escapes or a float or a NOP gap, and >=2 levels; distinct by output hash."})
	add(&propCfg{id: "C11", noasmRun: "^TestC11N", rule: "cases: tapes (parsed single/ND, edited, with deletions) x serializer mode x deserializer mode x history of earlier calls on the same Serializer and destination; deserialized document must equal the original incl. number types and float flags; blobs are re-read by a noasm build. Non-trivial: tape has a string and a container and (a NOP or >=2 roots or a flush boundary or a non-default history); distinct by (tape hash, mode pair)."})
	add(&propCfg{id: "C12", rule: "cases: key-collision documents x queries (FindKey, FindPath, FindElement, ForEach with key filter on unique-key objects, Parse/Map/Lookup, As* bulk accessors, numeric conversions at 2^63/2^64 boundaries) checked against a model computed from the abstract document. Non-trivial: object has >=2 members and the query is not for the first key, or a numeric value within 2 ulps of a range boundary; distinct by (document hash, query)."})
	add(&propCfg{id: "C13", rule: "cases: rapid state machine of Set* calls (allowed and disallowed) on generated value positions of a parsed document, all walkers compared with the model after every step. Non-trivial: >=2 successful edits of different kinds, one on a 2-word value or container; distinct by (document hash, op list hash)."})
	add(&propCfg{id: "C14", rule: "cases: rapid state machine of Object/Array DeleteElems (fn, key filter), SetNull on containers and replacements, on nested and already-gapped containers; read back through every traversal/lookup/marshal/serialize API and compared with the model. Non-trivial: >=1 real deletion followed by reads through an Advance-based and an AdvanceInto-based API; distinct by (document hash, op list hash)."})
	add(&propCfg{id: "C15", rule: "cases: rapid state machine over a pool of reused ParsedJson/Serializer objects: Parse/ParseND (valid, stage-1-invalid, stage-2-invalid; tiny/<8KiB/>8KiB/>16 buffers), edits, Serialize/Deserialize with mode switches; every call compared with the same call on fresh objects. Non-trivial: a failed parse immediately followed by a successful reuse, or a large->small / ND->single / nocopy->copy transition; distinct by history hash."})
	add(&propCfg{id: "C16", rule: "cases: string-heavy documents; input buffer overwritten after Parse/ParseND/ParseNDStream returns; copy vs no-copy on identical input; edit histories on (original, clones). Non-trivial: document has >=1 escaped and >=1 plain string, or the history edits both sides of a clone pair; distinct by hash."})
	add(&propCfg{id: "C17", rule: "cases: tapes of every successful parse of the C02/C08 generators (both kernels, both string modes) and deserialized tapes of edited documents, validated by an independent tape-format checker written from the README. Non-trivial: >=2 nesting levels or >=2 roots or >=1 NOP run; distinct by tape hash."})
	add(&propCfg{id: "C18", rule: "cases: float64 bit patterns: every binade x {min,max,random mantissas}, every power of ten 1e-323..1e308 +-2 ulp, +-64 ulp around the 1e-6/1e21 notation switches, all subnormal powers of two, integers x 10^k, 1..17 significant-digit classes, uniform random patterns; observed via SetFloat+StringCvt+MarshalJSON and via parsing a literal. Oracle: byte equality with encoding/json plus independent round-trip/shortest/format checks. Non-trivial: everything except integers of magnitude <= 16; distinct by bit pattern and path."})
	add(&propCfg{id: "C19", fuzz: "FuzzC19", hangRerun: true, rule: "cases: valid serialized blobs (4 modes) mutated at byte level (truncation, bit flip, substitution, splice) and structure-aware (decode framing, mutate tags/values/sizes/block types, re-frame), plus random bytes; inputs declaring sections > 4 MiB are skipped and counted. Non-trivial: mutant passes framing far enough that tape reconstruction starts; distinct by FNV-64 of the bytes."})
	add(&propCfg{id: "C20", race: true, raceRun: "^TestC20", run: "^TestC20NONE$", hangRerun: true, quickTO: 20 * time.Minute, rule: "cases: sets of 2..64 goroutine programs (Parse/ParseND/ParseNDStream, traversal, Clone+edit, Serialize 4 modes, Deserialize) on goroutine-private objects, run concurrently under -race with several GOMAXPROCS values; each transcript compared with the same program run alone. Non-trivial: >=4 goroutines overlapped and >=2 used the same codec pool kind; distinct by program-set hash."})
	return m
}

var root string

func main() {
	exe, _ := os.Executable()
	root = os.Getenv("VERIF_ROOT")
	if root == "" {
		root = filepath.Dir(filepath.Dir(exe))
	}
	if len(os.Args) >= 3 && os.Args[1] == "--replay" {
		os.Exit(replayCmd(os.Args[2]))
	}
	if len(os.Args) < 3 {
		fmt.Fprintln(os.Stderr, "usage: check <ID> <quick|thorough> | check --replay <file>")
		os.Exit(2)
	}
	id, tier := os.Args[1], os.Args[2]
	c := cfgs()[id]
	if c == nil || (tier != "quick" && tier != "thorough") {
		fmt.Fprintln(os.Stderr, "unknown property or tier")
		os.Exit(2)
	}
	os.Exit(runCheck(c, tier))
}

func baseEnv() []string {
	env := []string{}
	for _, e := range os.Environ() {
		if strings.HasPrefix(e, "GOFLAGS=") || strings.HasPrefix(e, "GOPROXY=") || strings.HasPrefix(e, "GOSUMDB=") || strings.HasPrefix(e, "GOTOOLCHAIN=") ||
			strings.HasPrefix(e, "VERIF_SHARD=") || strings.HasPrefix(e, "VERIF_NSHARDS=") || strings.HasPrefix(e, "VERIF_OUT=") || strings.HasPrefix(e, "VERIF_REPLAY") {
			continue
		}
		env = append(env, e)
	}
	return append(env, "GOFLAGS=-mod=mod", "GOPROXY=off", "GOSUMDB=off", "GOTOOLCHAIN=local")
}

// workRoot: scratch directory (VERIF_WORK relocates it so that a sensitivity run can go on beside a normal run).
func workRoot() string {
	if d := os.Getenv("VERIF_WORK"); d != "" {
		return d
	}
	return filepath.Join(root, "work")
}

func repoDir() string {
	if d := os.Getenv("VERIF_REPO"); d != "" {
		return d
	}
	return "/repo"
}

// build compiles the props test binary from /repo's current working tree.
func build(out string, tags string, race bool) error {
	args := []string{"test", "-c", "-vet=off", "-tags", tags, "-o", out}
	if race {
		args = append(args, "-race")
	}
	args = append(args, "./props")
	cmd := exec.Command("go", args...)
	cmd.Dir = filepath.Join(root, "harness")
	cmd.Env = baseEnv()
	if rd := repoDir(); rd != "/repo" {
		// alternate repository location (sensitivity runs against scratch copies)
		modfile := filepath.Join(workRoot(), "alt.go.mod")
		b, err := os.ReadFile(filepath.Join(root, "harness", "go.mod"))
		if err != nil {
			return err
		}
		nb := strings.Replace(string(b), "=> /repo", "=> "+rd, 1)
		if err := os.WriteFile(modfile, []byte(nb), 0o644); err != nil {
			return err
		}
		sum, _ := os.ReadFile(filepath.Join(root, "harness", "go.sum"))
		_ = os.WriteFile(filepath.Join(workRoot(), "alt.go.sum"), sum, 0o644)
		cmd.Args = append(cmd.Args[:2], append([]string{"-modfile", modfile}, cmd.Args[2:]...)...)
	}
	b, err := cmd.CombinedOutput()
	if err != nil {
		return fmt.Errorf("go %s: %v\n%s", strings.Join(cmd.Args[1:], " "), err, b)
	}
	return nil
}

type shardResult struct {
	idx      int
	base     string
	exitCode int
	timedOut bool
	logPath  string
	race     bool
}

func runShard(ctx context.Context, bin string, c *propCfg, tier string, seed int64, idx, n int, run, base string, extraEnv ...string) shardResult {
	logPath := base + ".log"
	lf, _ := os.Create(logPath)
	defer lf.Close()
	to := c.quickTO
	if tier == "thorough" {
		to = c.thorTO
	}
	cmd := exec.CommandContext(ctx, bin, "-test.run", run, "-test.timeout", (to + 5*time.Minute).String(), "-test.count=1")
	cmd.Dir = filepath.Join(root, "harness", "props")
	mp := c.maxProcs
	if mp == 0 {
		mp = 2
	}
	cmd.Env = append(baseEnv(),
		"VERIF_TIER="+tier, "VERIF_SEED="+strconv.FormatInt(seed, 10),
		"VERIF_SHARD="+strconv.Itoa(idx), "VERIF_NSHARDS="+strconv.Itoa(n), "VERIF_OUT="+base,
		"VERIF_ROOT="+root,
		"GOMAXPROCS="+strconv.Itoa(mp), "GORACE=halt_on_error=1 exitcode=66")
	cmd.Env = append(cmd.Env, extraEnv...)
	cmd.Stdout = lf
	cmd.Stderr = lf
	err := cmd.Run()
	r := shardResult{idx: idx, base: base, logPath: logPath}
	if ctx.Err() != nil {
		r.timedOut = true
		r.exitCode = -1
		return r
	}
	if err != nil {
		if ee, ok := err.(*exec.ExitError); ok {
			r.exitCode = ee.ExitCode()
			if r.exitCode == 0 {
				r.exitCode = -1
			}
		} else {
			r.exitCode = -2
		}
	}
	return r
}

type knownEntry struct {
	kind   string // "known" or "fixed"
	prop   string
	id     string
	replay string // basename under replays/known/
	match  string // substring of the failure message
	text   string
}

func loadKnown() []knownEntry {
	f, err := os.Open(filepath.Join(root, "KNOWN_FINDINGS.txt"))
	if err != nil {
		return nil
	}
	defer f.Close()
	var out []knownEntry
	sc := bufio.NewScanner(f)
	sc.Buffer(make([]byte, 1<<20), 1<<20)
	for sc.Scan() {
		line := strings.TrimSpace(sc.Text())
		if line == "" || strings.HasPrefix(line, "#") {
			continue
		}
		var e knownEntry
		switch {
		case strings.HasPrefix(line, "known:"):
			e.kind = "known"
			line = strings.TrimSpace(line[len("known:"):])
		case strings.HasPrefix(line, "fixed:"):
			e.kind = "fixed"
			line = strings.TrimSpace(line[len("fixed:"):])
		default:
			continue
		}
		head, text := line, ""
		if i := strings.Index(line, "::"); i >= 0 {
			head, text = strings.TrimSpace(line[:i]), strings.TrimSpace(line[i+2:])
		}
		e.text = text
		for _, f := range strings.Fields(head) {
			if k, v, ok := strings.Cut(f, "="); ok {
				switch k {
				case "property":
					e.prop = v
				case "id":
					e.id = v
				case "replay":
					e.replay = v
				case "match":
					e.match = strings.ReplaceAll(v, "_", " ")
				}
			}
		}
		if e.text == "" {
			e.text = head
		}
		out = append(out, e)
	}
	return out
}

// replayFresh executes one replay file in a fresh process. Returns (reproduced, harnessBug, output).
func replayFresh(bin, file string, timeout time.Duration) (bool, bool, string) {
	ctx, cancel := context.WithTimeout(context.Background(), timeout)
	defer cancel()
	cmd := exec.CommandContext(ctx, bin, "-test.run", "^TestReplay$", "-test.count=1", "-test.timeout", (timeout + time.Minute).String())
	cmd.Dir = filepath.Join(root, "harness", "props")
	cmd.Env = append(baseEnv(), "VERIF_REPLAY="+file, "VERIF_ROOT="+root, "GOMAXPROCS=4", "GORACE=halt_on_error=1 exitcode=66")
	b, err := cmd.CombinedOutput()
	out := string(b)
	if ctx.Err() != nil {
		return true, false, out + "\n(replay did not terminate within " + timeout.String() + ")"
	}
	if err == nil {
		return false, false, out
	}
	if strings.Contains(out, "REPLAY-HARNESS-BUG") {
		return false, true, out
	}
	return true, false, out
}

func replayCmd(file string) int {
	bin := filepath.Join(workRoot(), "bin", "props.test")
	if err := os.MkdirAll(filepath.Dir(bin), 0o755); err != nil {
		fmt.Println(err)
		return 2
	}
	if err := build(bin, "verif", false); err != nil {
		fmt.Println("BUILD-FAILED", err)
		return 2
	}
	abs, _ := filepath.Abs(file)
	rep, bug, out := replayFresh(bin, abs, 3*time.Minute)
	fmt.Print(out)
	if bug {
		return 2
	}
	if rep {
		prop := replayProp(abs)
		fmt.Printf("VIOLATION property=%s replay=%s\n", prop, abs)
		return 1
	}
	return 0
}

func replayProp(file string) string {
	b, err := os.ReadFile(file)
	if err != nil {
		return "?"
	}
	var rf struct {
		Property string `json:"property"`
	}
	_ = json.Unmarshal(b, &rf)
	return rf.Property
}

func replayMsg(file string) string {
	b, err := os.ReadFile(file)
	if err != nil {
		return ""
	}
	var rf struct {
		Msg string `json:"msg"`
	}
	_ = json.Unmarshal(b, &rf)
	return rf.Msg
}

type evidence struct {
	PropertyID  string                 `json:"property_id"`
	Tier        string                 `json:"tier"`
	Seed        int64                  `json:"seed"`
	Level       string                 `json:"level"`
	Coverage    map[string]interface{} `json:"coverage"`
	Assumptions []string               `json:"assumptions"`
	WallS       float64                `json:"wall_s"`
	Violations  int                    `json:"violations"`
}

func runCheck(c *propCfg, tier string) int {
	start := time.Now()
	seed := int64(1)
	if v := os.Getenv("VERIF_SEED"); v != "" {
		if n, err := strconv.ParseInt(v, 10, 64); err == nil {
			seed = n
		}
	}
	if seed < 0 {
		seed = -seed
	}
	work := filepath.Join(workRoot(), c.id+"-"+tier)
	_ = os.RemoveAll(work)
	if err := os.MkdirAll(work, 0o755); err != nil {
		fmt.Println("cannot create work dir:", err)
		return 2
	}
	binDir := filepath.Join(workRoot(), "bin")
	_ = os.MkdirAll(binDir, 0o755)
	_ = os.MkdirAll(filepath.Join(root, "evidence"), 0o755)

	// 1. build from /repo's current working tree
	bin := filepath.Join(binDir, "props.test")
	if err := build(bin, "verif", false); err != nil {
		fmt.Println("BUILD-FAILED (infrastructure, not a verdict):")
		fmt.Println(err)
		return 2
	}
	binRace := ""
	if c.race {
		binRace = filepath.Join(binDir, "props-race.test")
		if err := build(binRace, "verif", true); err != nil {
			fmt.Println("BUILD-FAILED (race):")
			fmt.Println(err)
			return 2
		}
	}
	binNoasm := ""
	if c.noasmRun != "" {
		binNoasm = filepath.Join(binDir, "props-noasm.test")
		if err := build(binNoasm, "verif,noasm", false); err != nil {
			fmt.Println("BUILD-FAILED (noasm):")
			fmt.Println(err)
			return 2
		}
	}

	known := loadKnown()
	violations := []string{}
	knownPrinted := map[string]bool{}
	infra := []string{}

	// 2. replay tier: committed regression cases and known-finding cases
	{
		base := filepath.Join(work, "replaydir")
		done := map[string]bool{}
		failing := []string{}
		for round := 0; round < 50; round++ {
			skip := []string{}
			for f := range done {
				skip = append(skip, f)
			}
			ctx, cancel := context.WithTimeout(context.Background(), 10*time.Minute)
			cmd := exec.CommandContext(ctx, bin, "-test.run", "^TestReplayDir$", "-test.count=1", "-test.timeout", "11m")
			cmd.Dir = filepath.Join(root, "harness", "props")
			cmd.Env = append(baseEnv(), "VERIF_REPLAY_DIR="+filepath.Join(root, "replays"), "VERIF_REPLAY_PROP="+c.id, "VERIF_OUT="+base, "VERIF_ROOT="+root, "GOMAXPROCS=4",
				"VERIF_REPLAY_SKIP="+strings.Join(skip, ","))
			_ = os.Remove(base + ".replaying")
			b, err := cmd.CombinedOutput()
			cancel()
			out := string(b)
			_ = os.WriteFile(fmt.Sprintf("%s.%d.log", base, round), b, 0o644)
			for _, line := range strings.Split(out, "\n") {
				if strings.HasPrefix(line, "REPLAY-FAIL ") {
					f := strings.TrimSuffix(strings.Fields(line)[1], ":")
					if !done[f] {
						failing = append(failing, f)
					}
					done[f] = true
				} else if strings.HasPrefix(line, "REPLAY-OK ") {
					done[strings.Fields(line)[1]] = true
				}
			}
			if err == nil || strings.Contains(out, "REPLAY-DIR-DONE") {
				break
			}
			// crashed or hung inside a replay file: attribute it, then go on with the rest
			p, e := os.ReadFile(base + ".replaying")
			if e != nil || done[string(p)] {
				infra = append(infra, "replay tier died: "+firstLines(out, 20))
				break
			}
			failing = append(failing, string(p))
			done[string(p)] = true
		}
		for _, f := range failing {
			violations = append(violations, f)
		}
		// known findings: each must still reproduce to earn its KNOWN-FINDING line
		for _, k := range known {
			if k.kind != "known" || k.prop != c.id || k.replay == "" {
				continue
			}
			kf := filepath.Join(root, "replays", "known", k.replay)
			rep, bug, o := replayFresh(bin, kf, 4*time.Minute)
			switch {
			case bug:
				infra = append(infra, "known-finding replay is broken: "+k.replay+": "+firstLines(o, 5))
			case rep:
				fmt.Printf("KNOWN-FINDING: property=%s %s\n", c.id, k.text)
				knownPrinted[k.id] = true
			default:
				fmt.Printf("note: listed finding %s (%s) no longer reproduces\n", k.id, k.replay)
			}
		}
	}

	// 3. generated search
	to := c.quickTO
	if tier == "thorough" {
		to = c.thorTO
	}
	ctx, cancel := context.WithTimeout(context.Background(), to)
	var results []shardResult
	var mu sync.Mutex
	var wg sync.WaitGroup
	sem := make(chan struct{}, runtime.NumCPU())
	launch := func(b string, run string, idx, n int, tag string, race bool, extra ...string) {
		wg.Add(1)
		go func() {
			defer wg.Done()
			sem <- struct{}{}
			defer func() { <-sem }()
			base := filepath.Join(work, fmt.Sprintf("%sshard%02d", tag, idx))
			r := runShard(ctx, b, c, tier, seed, idx, n, run, base, extra...)
			r.race = race
			mu.Lock()
			results = append(results, r)
			mu.Unlock()
		}()
	}
	if c.run != "^TestC20NONE$" {
		for i := 0; i < c.shards; i++ {
			launch(bin, c.run, i, c.shards, "", false)
		}
	}
	if c.race {
		nr := c.shards
		if nr > 8 {
			nr = 8
		}
		for i := 0; i < nr; i++ {
			launch(binRace, c.raceRun, i, nr, "race-", true)
		}
	}
	wg.Wait()
	if c.noasmRun != "" && ctx.Err() == nil {
		launch(binNoasm, c.noasmRun, 0, 1, "noasm-", false, "VERIF_EXCHANGE="+work)
		wg.Wait()
	}
	timedOut := ctx.Err() != nil
	cancel()
	fuzzExecs := int64(-1)
	if tier == "thorough" && c.fuzz != "" && !timedOut {
		fuzzExecs = runNativeFuzz(c, work, seed, &results, &infra)
	}
	sort.Slice(results, func(i, j int) bool { return results[i].base < results[j].base })

	// 4. examine failing shards
	huntsDone := 0
	for _, r := range results {
		if r.exitCode == 0 {
			continue
		}
		if r.timedOut {
			continue
		}
		b := bin
		if r.race {
			b = binRace
		}
		if strings.Contains(filepath.Base(r.base), "noasm-") {
			b = binNoasm
		}
		cand := ""
		isCrumb := false
		if _, err := os.Stat(r.base + ".fail.json"); err == nil {
			cand = r.base + ".fail.json"
		} else if st, err := os.Stat(r.base + ".crumb.json"); err == nil && st.Size() > 0 {
			cand = r.base + ".crumb.json"
			isCrumb = true
		}
		logTail := tailFile(r.logPath, 40)
		if strings.Contains(logTail, "HARNESS-BUG") {
			infra = append(infra, fmt.Sprintf("shard %d reported a harness/oracle self-check failure:\n%s", r.idx, logTail))
			continue
		}
		if cand == "" {
			infra = append(infra, fmt.Sprintf("shard %s exited %d without a failing case:\n%s", filepath.Base(r.base), r.exitCode, logTail))
			continue
		}
		rto := 4 * time.Minute
		if len(violations) >= 3 {
			// enough confirmed, reproducing violations for a verdict: the remaining failing shards are listed, not replayed
			// (replaying sixteen hanging cases one after the other would take half an hour)
			fmt.Printf("--- failure (shard %s) not replayed: %d violations already confirmed ---\n", filepath.Base(r.base), len(violations))
			continue
		}
		rep, bug, out := replayFresh(b, cand, rto)
		if bug {
			infra = append(infra, "harness bug on replay: "+firstLines(out, 10))
			continue
		}
		if !rep {
			// flaky: does not reproduce from its own replay file; try a few more times for schedule-dependent failures
			again := false
			for k := 0; k < 8 && !again; k++ {
				again, _, out = replayFresh(b, cand, rto)
			}
			if !again {
				// Pollution hunt: a case that fails inside its shard but passes alone usually suffers from package-level
				// state that an EARLIER case of the same process left behind. The shard is a pure function of its
				// seed, so it is run again with the process-state canary after every case; the first case after which
				// the canary fails is saved with "canary": true and must reproduce (case + canary) in a fresh process.
				hunted := false
				if !isCrumb && huntsDone < 2 {
					huntsDone++
					hbase := r.base + "-hunt"
					run := c.run
					if r.race {
						run = c.raceRun
					}
					hctx, hcancel := context.WithTimeout(context.Background(), to)
					hr := runShard(hctx, b, c, tier, seed, r.idx, shardCount(c, r), run, hbase, "VERIF_CANARY=1")
					hcancel()
					if hr.exitCode != 0 && !hr.timedOut {
						// the first failing case of the hunt run - flagged by the canary or failing by itself - ran in a
						// process that was clean until then, and it was saved without shrinking
						if _, err := os.Stat(hbase + ".fail.json"); err == nil {
							if rep2, bug2, out2 := replayFresh(b, hbase+".fail.json", rto); rep2 && !bug2 {
								cand, out, hunted = hbase+".fail.json", out2, true
							}
						}
					}
				}
				if !hunted {
					infra = append(infra, fmt.Sprintf("failure of shard %s did not reproduce from %s (flaky harness or schedule-dependent):\n%s", filepath.Base(r.base), cand, logTail))
					continue
				}
			}
		}
		// reproduced: known finding?
		msg := replayMsg(cand) + "\n" + out
		matched := false
		for _, k := range known {
			if k.kind == "known" && k.prop == c.id && k.match != "" && strings.Contains(msg, k.match) {
				matched = true
				if !knownPrinted[k.id] {
					fmt.Printf("KNOWN-FINDING: property=%s %s\n", c.id, k.text)
					knownPrinted[k.id] = true
				}
			}
		}
		if matched {
			continue
		}
		raw, _ := os.ReadFile(cand)
		sum := sha256.Sum256(raw)
		dst := filepath.Join(root, "replays", "found", fmt.Sprintf("%s-%s.json", c.id, hex.EncodeToString(sum[:6])))
		_ = os.MkdirAll(filepath.Dir(dst), 0o755)
		_ = os.WriteFile(dst, raw, 0o644)
		fmt.Printf("--- failure (shard %s) ---\n%s\n", filepath.Base(r.base), firstLines(replayMsg(cand), 30))
		if lb, err := os.ReadFile(r.logPath); err == nil {
			if i := strings.Index(string(lb), "WARNING: DATA RACE"); i >= 0 {
				fmt.Printf("race detector report:\n%s\n", firstLines(string(lb[i:]), 28))
			} else if i := strings.Index(string(lb), "WATCHDOG:"); i >= 0 {
				fmt.Printf("%s\n", firstLines(string(lb[i:]), 3))
			} else if isCrumb {
				fmt.Printf("process output (tail):\n%s\n", logTail)
			}
		}
		violations = append(violations, dst)
	}

	// 5. evidence
	bases := []string{}
	for _, r := range results {
		bases = append(bases, r.base+"."+c.id)
	}
	m, err := evid.Merge(bases)
	if err != nil {
		infra = append(infra, "cannot merge shard statistics: "+err.Error())
		m = &evid.Merged{Classes: map[string]int64{}, Skipped: map[string]int64{}}
	}
	samples := []interface{}{}
	for _, s := range m.Samples {
		var v interface{}
		if json.Unmarshal(s, &v) == nil {
			samples = append(samples, v)
		}
	}
	cov := map[string]interface{}{
		"evaluations":           m.Evaluations,
		"distinct_nontrivial":   m.Distinct,
		"nontrivial_evals":      m.Nontrivial,
		"rule":                  c.rule,
		"samples":               samples,
		"classes":               m.Classes,
		"skipped":               m.Skipped,
		"shards":                m.Shards,
		"notes":                 m.Notes,
		"exhaustive_subdomains": m.Exhaustive,
		"completed_subtests":    m.Completed,
		"timed_out":             timedOut,
		"known_findings":        keys(knownPrinted),
		"replay_files_run":      countReplays(c.id),
	}
	if fuzzExecs >= 0 {
		cov["native_fuzz_target"] = c.fuzz
		cov["native_fuzz_execs"] = fuzzExecs
	}
	ev := evidence{PropertyID: c.id, Tier: tier, Seed: seed, Level: c.level, Coverage: cov, Assumptions: c.assume,
		WallS: time.Since(start).Seconds(), Violations: len(violations)}
	eb, _ := json.MarshalIndent(ev, "", " ")
	evDir := filepath.Join(root, "evidence")
	if repoDir() != "/repo" {
		// sensitivity runs against another checkout never touch the committed evidence
		evDir = filepath.Join(workRoot(), "evidence-alt")
		_ = os.MkdirAll(evDir, 0o755)
	}
	_ = os.WriteFile(filepath.Join(evDir, c.id+".json"), eb, 0o644)

	fmt.Printf("%s %s: %d evaluations, %d distinct non-trivial, %d shards, %.1fs\n", c.id, tier, m.Evaluations, m.Distinct, m.Shards, time.Since(start).Seconds())
	// scratch that is only needed during the run (exchange files for the noasm binary, hash sets of the shards)
	if len(violations) == 0 && len(infra) == 0 {
		_ = os.RemoveAll(filepath.Join(work, "exchange"))
		if ms, _ := filepath.Glob(filepath.Join(work, "*.hashes")); ms != nil {
			for _, f := range ms {
				_ = os.Remove(f)
			}
		}
	}
	if len(violations) > 0 {
		seenV := map[string]bool{}
		for _, v := range violations {
			if seenV[v] {
				continue
			}
			seenV[v] = true
			fmt.Printf("VIOLATION property=%s replay=%s\n", c.id, v)
		}
		return 1
	}
	if timedOut {
		fmt.Println("INCONCLUSIVE: wall-clock budget hit (not a verdict)")
		return 2
	}
	if len(infra) > 0 {
		for _, s := range infra {
			fmt.Println("INFRA:", s)
		}
		return 2
	}
	if m.Evaluations == 0 || m.Distinct < 2 {
		fmt.Println("INFRA: the run evaluated no (non-trivial) cases")
		return 2
	}
	return 0
}

// shardCount: the number of shards the failing shard's run was split into.
func shardCount(c *propCfg, r shardResult) int {
	if strings.Contains(filepath.Base(r.base), "noasm-") {
		return 1
	}
	if r.race {
		if c.shards > 8 {
			return 8
		}
	}
	return c.shards
}

func keys(m map[string]bool) []string {
	out := []string{}
	for k := range m {
		out = append(out, k)
	}
	sort.Strings(out)
	return out
}

func countReplays(id string) int {
	fs, _ := filepath.Glob(filepath.Join(root, "replays", id+"-*.json"))
	return len(fs)
}

func firstLines(s string, n int) string {
	lines := strings.Split(s, "\n")
	if len(lines) > n {
		lines = lines[:n]
	}
	return strings.Join(lines, "\n")
}

func tailFile(p string, n int) string {
	b, err := os.ReadFile(p)
	if err != nil {
		return ""
	}
	lines := strings.Split(string(b), "\n")
	if len(lines) > n {
		lines = lines[len(lines)-n:]
	}
	return strings.Join(lines, "\n")
}

// runNativeFuzz runs a coverage-guided go fuzz campaign on the property's target (thorough tier). A failing input is
// written as a replay file by the target itself (VERIF_OUT), and then handled like any other failing shard.
func runNativeFuzz(c *propCfg, work string, seed int64, results *[]shardResult, infra *[]string) int64 {
	bin := filepath.Join(workRoot(), "bin", "props-fuzz.test")
	cmd := exec.Command("go", "test", "-c", "-vet=off", "-fuzz=Fuzz", "-tags", "verif", "-o", bin, "./props")
	cmd.Dir = filepath.Join(root, "harness")
	cmd.Env = baseEnv()
	if b, err := cmd.CombinedOutput(); err != nil {
		*infra = append(*infra, "cannot build the fuzz binary: "+firstLines(string(b), 10))
		return -1
	}
	ft := c.fuzzTime
	if ft == 0 {
		ft = 120 * time.Second
	}
	if v := os.Getenv("VERIF_FUZZTIME_S"); v != "" {
		if n, err := strconv.Atoi(v); err == nil {
			ft = time.Duration(n) * time.Second
		}
	}
	base := filepath.Join(work, "fuzz")
	cache := filepath.Join(workRoot(), "fuzzcache", c.id)
	_ = os.MkdirAll(cache, 0o755)
	pkgDir := filepath.Join(root, "harness", "props")
	crashDir := filepath.Join(pkgDir, "testdata", "fuzz", c.fuzz)
	_ = os.RemoveAll(crashDir)
	ctx, cancel := context.WithTimeout(context.Background(), ft+3*time.Minute)
	defer cancel()
	run := exec.CommandContext(ctx, bin, "-test.run=^$", "-test.fuzz=^"+c.fuzz+"$", "-test.fuzztime="+ft.String(), "-test.fuzzcachedir="+cache, "-test.parallel=16", "-test.timeout=0")
	run.Dir = pkgDir
	run.Env = append(baseEnv(), "VERIF_TIER=thorough", "VERIF_OUT="+base, "VERIF_ROOT="+root, "VERIF_SEED="+strconv.FormatInt(seed, 10))
	out, err := run.CombinedOutput()
	_ = os.WriteFile(base+".log", out, 0o644)
	_ = os.RemoveAll(filepath.Join(pkgDir, "testdata"))
	execs := int64(0)
	for _, line := range strings.Split(string(out), "\n") {
		if i := strings.Index(line, "execs: "); i >= 0 {
			f := strings.Fields(line[i+7:])
			if len(f) > 0 {
				if n, e := strconv.ParseInt(f[0], 10, 64); e == nil && n > execs {
					execs = n
				}
			}
		}
	}
	r := shardResult{idx: 99, base: base, logPath: base + ".log"}
	if err != nil {
		r.exitCode = 1
		if ctx.Err() != nil {
			*infra = append(*infra, "native fuzz campaign did not stop in time")
			return execs
		}
	}
	*results = append(*results, r)
	// prune the fuzz cache
	if sz := dirSize(cache); sz > 50<<20 {
		_ = os.RemoveAll(cache)
	}
	return execs
}

func dirSize(d string) int64 {
	var n int64
	filepath.Walk(d, func(_ string, info os.FileInfo, err error) error {
		if err == nil && !info.IsDir() {
			n += info.Size()
		}
		return nil
	})
	return n
}
