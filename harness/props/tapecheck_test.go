package props

import (
	"fmt"

	simdjson "github.com/minio/simdjson-go"
)

// tapeCheck validates the exported Tape/Strings/Message against the documented tape format
// (README "Tape format", doc comments): written independently of the library's own walkers.
//
//	root pairs:   open 'r' at i points one past its closing 'r'; closing 'r' points back to i; the last open root
//	              therefore points to len(Tape)
//	containers:   '{'/'[' at i points one past the matching '}'/']', which points back to i; proper nesting
//	strings:      payload = offset (bit 55 set: Strings.B, clear: Message), next word = length, in range
//	numbers:      'l' 'u' 'd' followed by the 64-bit payload word; 'd' payload holds only documented flags
//	atoms:        'n' 't' 'f'
//	NOP:          'N' with skip count c >= 1: entries i+1..i+c-1 are NOPs too and i+c is inside the enclosing scope
//	objects:      members alternate string key / value
type tapeStats struct {
	roots, maxDepth, nops, nopRuns int
}

func tapeCheck(pj *simdjson.ParsedJson, strictNopRuns bool) (tapeStats, error) {
	var st tapeStats
	tp := pj.Tape
	n := len(tp)
	if n == 0 {
		return st, fmt.Errorf("empty tape")
	}
	tagOf := func(i int) byte { return byte(tp[i] >> 56) }
	val := func(i int) uint64 { return tp[i] & simdjson.JSONVALUEMASK }
	type scope struct {
		open    int
		end     int // index of the closing tag
		kind    byte
		isKey   bool
		members int
	}
	i := 0
	for i < n {
		if tagOf(i) != 'r' {
			return st, fmt.Errorf("tape[%d]: expected opening root, found tag %q", i, tagOf(i))
		}
		p := int(val(i))
		if val(i) > uint64(n) || p < i+2 {
			return st, fmt.Errorf("tape[%d]: opening root points to %d (tape length %d)", i, val(i), n)
		}
		cl := p - 1
		if tagOf(cl) != 'r' || int(val(cl)) != i {
			return st, fmt.Errorf("tape[%d]: root points one past %d, but tape[%d] is tag %q value %d (want closing root pointing to %d)", i, cl, cl, tagOf(cl), val(cl), i)
		}
		st.roots++
		stack := []scope{{open: i, end: cl, kind: 'r'}}
		j := i + 1
		values := 0
		for {
			top := &stack[len(stack)-1]
			if j > top.end {
				return st, fmt.Errorf("tape[%d]: ran past the end (%d) of the scope opened at %d", j, top.end, top.open)
			}
			if j == top.end {
				// closing tag of the current scope
				switch top.kind {
				case 'r':
					if values != 1 {
						return st, fmt.Errorf("root at %d holds %d values, want 1", top.open, values)
					}
				case '{':
					if !top.isKey {
						return st, fmt.Errorf("object at %d ends after a key without value", top.open)
					}
				}
				stack = stack[:len(stack)-1]
				j++
				if len(stack) == 0 {
					break
				}
				continue
			}
			t := tagOf(j)
			if t == 'N' {
				c := int(val(j))
				if val(j) == 0 || val(j) > uint64(n) || j+c > top.end {
					return st, fmt.Errorf("tape[%d]: NOP skip %d leaves the scope [%d,%d]", j, val(j), top.open, top.end)
				}
				for k := 1; k < c; k++ {
					if tagOf(j+k) != 'N' {
						return st, fmt.Errorf("tape[%d]: NOP skip %d jumps over live entry tape[%d] (tag %q)", j, c, j+k, tagOf(j+k))
					}
					if strictNopRuns && int(val(j+k)) != c-k {
						return st, fmt.Errorf("tape[%d]: NOP run starting at %d with count %d has count %d at position +%d (want %d)", j+k, j, c, val(j+k), k, c-k)
					}
				}
				st.nops += c
				st.nopRuns++
				j += c
				if strictNopRuns && j < top.end && tagOf(j) == 'N' {
					// rebuilt tapes: Deserialize writes adjacent gaps as ONE run, so a skip lands on a live entry
					return st, fmt.Errorf("tape[%d]: NOP run of %d entries starting at %d lands on another NOP entry, not on the next live entry", j, c, j-c)
				}
				continue
			}
			// a live entry: key or value
			if top.kind == '{' && top.isKey {
				if t != '"' {
					return st, fmt.Errorf("tape[%d]: object key has tag %q", j, t)
				}
			}
			isKeyPos := top.kind == '{' && top.isKey
			switch t {
			case '"':
				if j+1 >= top.end {
					return st, fmt.Errorf("tape[%d]: string without length word", j)
				}
				off := val(j)
				ln := tp[j+1]
				if off&simdjson.STRINGBUFBIT != 0 {
					o := off & simdjson.STRINGBUFMASK
					if pj.Strings == nil || o+ln > uint64(len(pj.Strings.B)) || o+ln < o {
						sl := 0
						if pj.Strings != nil {
							sl = len(pj.Strings.B)
						}
						return st, fmt.Errorf("tape[%d]: string offset %d + length %d outside the string buffer (%d)", j, o, ln, sl)
					}
				} else {
					if off+ln > uint64(len(pj.Message)) || off+ln < off {
						return st, fmt.Errorf("tape[%d]: string offset %d + length %d outside the message (%d)", j, off, ln, len(pj.Message))
					}
				}
				j += 2
			case 'l', 'u', 'd':
				if j+1 >= top.end {
					return st, fmt.Errorf("tape[%d]: number without payload word", j)
				}
				if t == 'd' && val(j)&^uint64(simdjson.FloatOverflowedInteger) != 0 {
					return st, fmt.Errorf("tape[%d]: float tag carries undocumented flag bits %#x", j, val(j))
				}
				j += 2
			case 'n', 't', 'f':
				j++
			case '{', '[':
				e := int(val(j))
				if val(j) > uint64(n) || e-1 <= j || e-1 >= top.end {
					return st, fmt.Errorf("tape[%d]: container %q points to %d, outside its parent scope [%d,%d]", j, t, val(j), top.open, top.end)
				}
				want := byte('}')
				if t == '[' {
					want = ']'
				}
				if tagOf(e-1) != want || int(val(e-1)) != j {
					return st, fmt.Errorf("tape[%d]: container %q points one past %d, but tape[%d] is tag %q value %d", j, t, e-1, e-1, tagOf(e-1), val(e-1))
				}
				if isKeyPos {
					return st, fmt.Errorf("tape[%d]: container in key position", j)
				}
				if top.kind == '{' {
					top.isKey = true
					top.members++
				} else if top.kind == 'r' {
					values++
				}
				stack = append(stack, scope{open: j, end: e - 1, kind: t, isKey: t == '{'})
				if len(stack)-1 > st.maxDepth {
					st.maxDepth = len(stack) - 1
				}
				j++
				continue
			case '}', ']', 'r':
				return st, fmt.Errorf("tape[%d]: stray closing tag %q inside the scope opened at %d (which ends at %d)", j, t, top.open, top.end)
			default:
				return st, fmt.Errorf("tape[%d]: undocumented tag %q (%d)", j, t, t)
			}
			// scalar bookkeeping
			if top.kind == '{' {
				if isKeyPos {
					top.isKey = false
				} else {
					top.isKey = true
					top.members++
				}
			} else if top.kind == 'r' {
				values++
			}
		}
		if j != p {
			return st, fmt.Errorf("root at %d: walked to %d but the root points to %d", i, j, p)
		}
		i = p
	}
	if i != n {
		return st, fmt.Errorf("last root points to %d but the tape has %d entries", i, n)
	}
	return st, nil
}
