//go:build verif

package props

import (
	"testing"

	simdjson "github.com/minio/simdjson-go"
)

// Native coverage-guided fuzz targets (thorough tier only; campaigns cannot be pinned to a seed, the saved failing
// input is the reproducible unit: the registered runner writes the usual replay file before failing).

var fuzzSeedDocs = []string{
	`[]`, `{}`, `[1,2,3]`, `{"a":"b","c":[true,false,null],"d":{"e":1.5e3}}`, `["é😀\n\"\\"]`,
	`[-0,0.0,1e308,18446744073709551615,-9223372036854775808,123456789012345678901]`, "[1]\n{\"a\":2}\r\n\n[3]",
	"[true\x00]", `["\u12,4"]`, `[-01.5]`, `{"a":1,"a":2}`, `[[[[[[[[[[]]]]]]]]]]`, `["` + "aaaaaaaaaaaaaaaaaaaaaaaaaaaaaaaaaaaaaaaaaaaaaaaaaaaaaaaaaaaaaaaaaaaaaaaaaaaaaaaaaaaaaaaa" + `"]`,
}

func FuzzC01(f *testing.F) {
	for _, s := range fuzzSeedDocs {
		f.Add([]byte(s))
	}
	f.Fuzz(func(t *testing.T, data []byte) {
		if len(data) > 1<<16 {
			return
		}
		c01Run(t, c01Case{In: data})
	})
}

func FuzzC05(f *testing.F) {
	for i, s := range fuzzSeedDocs {
		f.Add([]byte(s), i%2 == 0, uint8(i))
	}
	f.Fuzz(func(t *testing.T, data []byte, nd bool, guard uint8) {
		if len(data) > 1<<16 {
			return
		}
		c05Run(t, hostileCase{In: data, ND: nd, Guard: int(guard % 3), Reuse: guard&4 != 0})
	})
}

func FuzzC06(f *testing.F) {
	for i, s := range fuzzSeedDocs {
		f.Add([]byte(s), i%2 == 0)
	}
	f.Fuzz(func(t *testing.T, data []byte, nd bool) {
		if len(data) > 1<<16 {
			return
		}
		c06Run(t, hostileCase{In: data, ND: nd})
	})
}

func FuzzC08(f *testing.F) {
	for _, s := range fuzzSeedDocs {
		f.Add([]byte(s + "\n" + s + "\r\n\n"))
	}
	f.Fuzz(func(t *testing.T, data []byte) {
		if len(data) > 1<<16 {
			return
		}
		c08Run(t, ndCase{In: data})
	})
}

func FuzzC19(f *testing.F) {
	for i, s := range fuzzSeedDocs {
		pj, err := simdjson.Parse([]byte(s), nil)
		if err != nil {
			continue
		}
		for mode := 0; mode < 4; mode++ {
			ser := simdjson.NewSerializer()
			ser.CompressMode(simdjson.CompressMode(mode))
			f.Add(ser.Serialize(nil, *pj), uint8(i+mode))
		}
	}
	f.Fuzz(func(t *testing.T, blob []byte, mode uint8) {
		if len(blob) > 1<<16 {
			return
		}
		if ok, _ := c19Precondition(blob); !ok {
			return
		}
		c19Run(t, blobCase{Blob: blob, Mode: int(mode % 4)})
	})
}
