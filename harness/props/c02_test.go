package props

import (
	"bytes"
	"fmt"
	"strconv"
	"strings"
	"testing"

	simdjson "github.com/minio/simdjson-go"
	"pgregory.net/rapid"

	rj "verifharness/internal/refjson"
)

// C02: accepted documents are exposed with exact structure, order and values.
// C17: every produced tape obeys the documented tape format (same generators, tape checker as oracle).

type docCase struct {
	In []byte `json:"in"`
}

// interfaceDepthLimit: beyond this depth the map/slice building walker (W5) is not run (see DESIGN D10).
const interfaceDepthLimit = 100_000

func modelOf(in []byte) (*rj.Node, error) {
	m, err := rj.ParseStrict(in)
	if err != nil {
		return nil, bugf("generator produced a document the reference parser rejects (%v): %q", err, clip(in))
	}
	if err := rj.ResolveNumbers(m); err != nil {
		return nil, bugf("number oracle: %v", err)
	}
	return m, nil
}

func c02Check(c docCase) error {
	model, err := modelOf(c.In)
	if err != nil {
		return err
	}
	depth := nodeDepth(model)
	ws := allWalkers
	if depth > interfaceDepthLimit {
		ws = []walker{wW1, wW2, wW3, wW4}
	}
	cache := map[canonOpts][]byte{}
	mc := func(o canonOpts) []byte {
		if b, ok := cache[o]; ok {
			return b
		}
		b := canonNode(nil, model, o)
		cache[o] = b
		return b
	}
	for _, cfg := range parseCfgsSib(c.In) {
		in := append([]byte(nil), c.In...)
		pj, err := parseWith(cfg, in, false)
		if err != nil {
			return fmt.Errorf("[%s] valid document rejected: %v: %q", cfg, err, clip(c.In))
		}
		if err := compareWalkers(pj, ws, mc); err != nil {
			return fmt.Errorf("[%s] %v\ninput: %q", cfg, err, clip(c.In))
		}
	}
	return nil
}

var c02Run = register("C02", "doc", c02Check)

func c17Check(c docCase) error {
	if _, err := modelOf(c.In); err != nil {
		return err
	}
	for _, cfg := range parseCfgsSib(c.In) {
		in := append([]byte(nil), c.In...)
		pj, err := parseWith(cfg, in, false)
		if err != nil {
			return fmt.Errorf("[%s] valid document rejected: %v", cfg, err)
		}
		if _, err := tapeCheck(pj, true); err != nil {
			return fmt.Errorf("[%s] tape format violated: %v\ninput: %q", cfg, err, clip(c.In))
		}
		if cfg.copy {
			// copy mode: every string lives in the string buffer
		}
	}
	return nil
}

var c17Run = register("C17", "doc", c17Check)

// ---------------------------------------------------------------------------------------------
// Parametric shapes that reach internal boundaries cheaply (parameters are rapid draws, so they shrink).

var elemTemplates = []string{`"s"`, `"ab"`, `1`, `-1.5`, `true`, `null`, `[]`, `{}`, `{"a":1}`, `[1]`, `"\n"`, `""`, `12345678901234567890`, `[[]]`, `{"a":{"b":[]}}`, `false`, `0`, `"é"`, `1e5`}

func genShape(t *rapid.T) ([]byte, string) {
	kind := rapid.IntRange(0, 8).Draw(t, "shape")
	var b bytes.Buffer
	if kind == 8 && rapid.IntRange(0, 2).Draw(t, "fewerhuge") != 0 {
		kind = 6
	}
	switch kind {
	case 8: // one very long string (the string buffer has to grow for it) between ordinary strings
		l := []int{1 << 16, 1 << 18, 1 << 20, 1<<20 + 1<<19, 1 << 21}[rapid.IntRange(0, 4).Draw(t, "hugelen")] + rapid.IntRange(-70, 70).Draw(t, "hugedelta")
		b.WriteString(`{"first":"v1\n","list":["a","b\t"],"big":"`)
		if rapid.Bool().Draw(t, "hugeesc") {
			b.WriteString(`\n`) // an escape: the string is copied to the string buffer in no-copy mode as well
		}
		b.WriteString(strings.Repeat("0123456789abcdef", l/16))
		b.WriteString(strings.Repeat("z", l%16))
		b.WriteString(`","after":"x\\","last":["y"]}`)
		return b.Bytes(), "hugeString"
	case 0, 1: // wide array around index-buffer boundaries
		k := rapid.IntRange(1, 20).Draw(t, "bufk")
		if rapid.IntRange(0, 3).Draw(t, "kone") != 0 {
			k = 1
		}
		tmpl := elemTemplates[rapid.IntRange(0, len(elemTemplates)-1).Draw(t, "tmpl")]
		per := structuralsOf(tmpl) + 1 // + comma
		target := 1408*k + rapid.IntRange(-4, 4).Draw(t, "delta")
		n := target / per
		n += rapid.IntRange(-2, 2).Draw(t, "dn")
		if n < 1 {
			n = 1
		}
		pad := rapid.IntRange(0, 3).Draw(t, "pad")
		b.WriteByte('[')
		b.WriteString(strings.Repeat(" ", pad))
		mixed := rapid.Bool().Draw(t, "mixed")
		for i := 0; i < n; i++ {
			if i > 0 {
				b.WriteByte(',')
			}
			if mixed {
				b.WriteString(elemTemplates[(i*7+k)%len(elemTemplates)])
			} else {
				b.WriteString(tmpl)
			}
		}
		b.WriteByte(']')
		return b.Bytes(), "wideArray"
	case 2: // wide object
		n := rapid.IntRange(1, 3000).Draw(t, "n")
		if rapid.Bool().Draw(t, "near1408") {
			n = 1408/4 + rapid.IntRange(-3, 3).Draw(t, "d")
		}
		tmpl := elemTemplates[rapid.IntRange(0, len(elemTemplates)-1).Draw(t, "tmpl")]
		pad := rapid.IntRange(0, 3).Draw(t, "pad")
		b.WriteByte('{')
		b.WriteString(strings.Repeat(" ", pad))
		for i := 0; i < n; i++ {
			if i > 0 {
				b.WriteByte(',')
			}
			b.WriteString(`"k` + strconv.Itoa(i%97) + `":`)
			b.WriteString(tmpl)
		}
		b.WriteByte('}')
		return b.Bytes(), "wideObject"
	case 3: // deep nesting
		maxD := 3000
		if thorough() {
			maxD = 30000
		}
		d := rapid.IntRange(1, maxD).Draw(t, "depth")
		if rapid.IntRange(0, 2).Draw(t, "near128") == 0 {
			d = rapid.IntRange(120, 136).Draw(t, "d128") // around the initial capacity of the parser's scope stack
		}
		switch rapid.IntRange(0, 2).Draw(t, "deepkind") {
		case 0:
			b.WriteString(strings.Repeat("[", d))
			b.WriteString(strings.Repeat("]", d))
		case 1:
			b.WriteString(strings.Repeat(`{"a":`, d))
			b.WriteString("1")
			b.WriteString(strings.Repeat("}", d))
		default:
			for i := 0; i < d; i++ {
				if i%2 == 0 {
					b.WriteString(`[1,`)
				} else {
					b.WriteString(`{"k":2,"a":`)
				}
			}
			b.WriteString(`"x"`)
			for i := d - 1; i >= 0; i-- {
				if i%2 == 0 {
					b.WriteString(`,3]`)
				} else {
					b.WriteString(`,"z":null}`)
				}
			}
		}
		return b.Bytes(), "deep"
	case 4: // exact total length around the 8 KiB threshold (string filler)
		total := 8192 + rapid.IntRange(-3, 3).Draw(t, "dlen")
		tmpl := elemTemplates[rapid.IntRange(0, len(elemTemplates)-1).Draw(t, "tmpl")]
		fill := total - len(tmpl) - 6
		if rapid.Bool().Draw(t, "first") {
			b.WriteString(`[` + tmpl + `,"` + strings.Repeat("x", fill) + `"]`)
		} else {
			b.WriteString(`["` + strings.Repeat("x", fill) + `",` + tmpl + `]`)
		}
		return b.Bytes(), "len8KiB"
	case 5: // exact total length, white-space filler in the middle
		total := 8192 + rapid.IntRange(-3, 3).Draw(t, "dlen")
		if rapid.Bool().Draw(t, "x64") {
			total = 64*rapid.IntRange(1, 40).Draw(t, "blocks") + rapid.IntRange(-1, 1).Draw(t, "d")
		}
		tmpl := elemTemplates[rapid.IntRange(0, len(elemTemplates)-1).Draw(t, "tmpl")]
		fill := total - 2*len(tmpl) - 3
		if fill < 0 {
			fill = 0
		}
		b.WriteString(`[` + tmpl + `,` + strings.Repeat(" ", fill) + tmpl + `]`)
		return b.Bytes(), "lenWS"
	case 6: // many strings with escapes so that the string buffer reallocates and strings straddle blocks
		n := rapid.IntRange(1, 400).Draw(t, "n")
		l := rapid.IntRange(0, 200).Draw(t, "slen")
		b.WriteByte('[')
		for i := 0; i < n; i++ {
			if i > 0 {
				b.WriteByte(',')
			}
			b.WriteByte('"')
			b.WriteString(strings.Repeat("a", (l+i)%(l+1)))
			if i%3 == 0 {
				b.WriteString(`\n`)
			}
			if i%5 == 0 {
				b.WriteString(`é`)
			}
			b.WriteString(strings.Repeat("b", i%7))
			b.WriteByte('"')
		}
		b.WriteByte(']')
		return b.Bytes(), "manyStrings"
	default: // big documents
		maxN := 30_000
		if thorough() {
			maxN = 150_000
		}
		n := rapid.IntRange(1000, maxN).Draw(t, "bign")
		b.WriteByte('[')
		for i := 0; i < n; i++ {
			if i > 0 {
				b.WriteByte(',')
			}
			b.WriteString(elemTemplates[(i*5+n)%len(elemTemplates)])
		}
		b.WriteByte(']')
		return b.Bytes(), "big"
	}
}

func structuralsOf(s string) int {
	n := 0
	inStr := false
	prevWS := true
	for i := 0; i < len(s); i++ {
		c := s[i]
		if inStr {
			if c == '\\' {
				i++
			} else if c == '"' {
				inStr = false
			}
			prevWS = false
			continue
		}
		switch c {
		case '"':
			inStr = true
			n++
			prevWS = false
		case '{', '}', '[', ']', ',', ':':
			n++
			prevWS = true
		case ' ':
			prevWS = true
		default:
			if prevWS {
				n++
			}
			prevWS = false
		}
	}
	return n
}

func docClasses(in []byte, model *rj.Node) (classes []string, nontrivial bool) {
	d := nodeDepth(model)
	switch {
	case d >= 1000:
		classes = append(classes, "depth:>=1000")
	case d >= 10:
		classes = append(classes, "depth:10-999")
	case d >= 2:
		classes = append(classes, "depth:2-9")
	default:
		classes = append(classes, "depth:1")
	}
	switch n := len(in); {
	case n > 1<<20:
		classes = append(classes, "size:>1MiB")
	case n > 8192:
		classes = append(classes, "size:8KiB-1MiB")
	case n > 64:
		classes = append(classes, "size:65B-8KiB")
	default:
		classes = append(classes, "size:<=64B")
	}
	ns := structuralCount(in)
	if ns > 1408 {
		classes = append(classes, "boundary:>1408-structurals")
	}
	if ns > 16*1408 {
		classes = append(classes, "boundary:ring-wrap(>16x1408)")
	}
	dup := hasDupKeys(model)
	if dup {
		classes = append(classes, "dupkeys")
	}
	nontrivial = d >= 2 || dup || len(in) > 64
	return
}

// structuralCount is a cheap independent count of structural + pseudo-structural characters.
func structuralCount(in []byte) int {
	n := 0
	inStr := false
	prevSep := true
	for i := 0; i < len(in); i++ {
		c := in[i]
		if inStr {
			if c == '\\' {
				i++
			} else if c == '"' {
				inStr = false
			}
			continue
		}
		switch c {
		case '"':
			inStr = true
			n++
			prevSep = false
		case '{', '}', '[', ']', ',', ':':
			n++
			prevSep = true
		case ' ', '\t', '\n', '\r':
			prevSep = true
		default:
			if prevSep {
				n++
			}
			prevSep = false
		}
	}
	return n
}

func c02Eval(tb fataler, in []byte, gen string) {
	c02Run(tb, docCase{In: in})
	model, _ := modelOf(in)
	cls, nt := docClasses(in, model)
	cl := col("C02")
	cl.Eval(nt, evidHash(in), append(cls, "gen:"+gen)...)
	cl.Sample(func() interface{} { return map[string]interface{}{"input": clip(in), "len": len(in), "gen": gen} })
}

func c17Eval(tb fataler, in []byte, gen string) {
	c17Run(tb, docCase{In: in})
	model, _ := modelOf(in)
	cls, _ := docClasses(in, model)
	cl := col("C17")
	cl.Eval(nodeDepth(model) >= 2, evidHash(in), append(cls, "gen:"+gen, "src:parse")...)
	cl.Sample(func() interface{} { return map[string]interface{}{"input": clip(in), "len": len(in), "gen": gen} })
}

func genAnyDoc(t *rapid.T) ([]byte, string) {
	if rapid.IntRange(0, 9).Draw(t, "shapeOrDoc") < 3 {
		return genShape(t)
	}
	p := pickProfile(t)
	d := genDoc(t, p)
	text, _ := render(d, genLayout(t, false))
	return text, "doc-" + p.Name
}

func TestC02_Docs(t *testing.T) {
	runRapid(t, "C02_Docs", nCases(40_000, 400_000), func(t *rapid.T) {
		text, gen := genAnyDoc(t)
		c02Eval(t, text, gen)
	})
	col("C02").Completed("TestC02_Docs")
}

// TestC02_IndexSweep: arrays of N short values for every N around the index-buffer size, with prefix padding, so
// that each token kind becomes the last index of a buffer (the stripped-index carry).
func TestC02_IndexSweep(t *testing.T) {
	idx := 0
	lo, hi := 1300, 1500
	for _, tmpl := range []string{`"s"`, `1`, `[]`, `{"a":1}`, `true`, `"\n"`, `-1.5`} {
		per := structuralsOf(tmpl) + 1
		for target := lo; target <= hi; target++ {
			for pad := 0; pad < 2; pad++ {
				idx++
				if idx%envNShards != envShard {
					continue
				}
				n := target / per
				in := []byte("[" + strings.Repeat(" ", pad) + strings.Repeat(tmpl+",", n) + tmpl + "]")
				c02Eval(t, in, "indexSweep")
			}
		}
		ks := []int{2, 3, 15, 16, 17, 18}
		if thorough() {
			ks = []int{2, 3, 4, 5, 8, 14, 15, 16, 17, 18, 19, 20, 32, 33}
		}
		for _, k := range ks {
			for d := -3; d <= 3; d++ {
				idx++
				if idx%envNShards != envShard {
					continue
				}
				n := (1408*k + d) / per
				in := []byte("[" + strings.Repeat(tmpl+",", n) + tmpl + "]")
				c02Eval(t, in, "indexSweep-ring")
			}
		}
	}
	col("C02").Completed("TestC02_IndexSweep")
}

func TestC17_Docs(t *testing.T) {
	runRapid(t, "C17_Docs", nCases(40_000, 500_000), func(t *rapid.T) {
		text, gen := genAnyDoc(t)
		c17Eval(t, text, gen)
	})
	col("C17").Completed("TestC17_Docs")
}

var _ = simdjson.TagEnd

// ---------------------------------------------------------------------------------------------
// C17 on whatever Parse accepts: the property speaks of "a successful parse", not of valid documents. Inputs that are
// NOT valid JSON (mutations, unbalanced large documents) are parsed in every configuration, including the ones that
// recycle buffers and result objects; wherever the call succeeds - rightly or not, that verdict is C01's business -
// the exported tape must obey the format.

type c17AnyCase struct {
	In []byte `json:"in"`
	ND bool   `json:"nd"`
}

func c17AnyCheck(c c17AnyCase) error {
	for _, cfg := range parseCfgsSib(c.In) {
		in := append([]byte(nil), c.In...)
		pj, err := parseWith(cfg, in, c.ND)
		if err != nil {
			continue
		}
		if pj == nil {
			return fmt.Errorf("[%s] neither error nor result", cfg)
		}
		if _, err := tapeCheck(pj, true); err != nil {
			return fmt.Errorf("[%s] the call succeeded, but the tape it exports violates the format: %v\ninput: %q", cfg, err, clip(c.In))
		}
	}
	return nil
}

var c17AnyRun = register("C17", "any-input", c17AnyCheck)

func TestC17_Accepted(t *testing.T) {
	runRapid(t, "C17_Accepted", nCases(12_000, 200_000), func(t *rapid.T) {
		var in []byte
		kind := "mutated"
		nd := false
		switch rapid.IntRange(0, 3).Draw(t, "src") {
		case 0: // the reuse-size classes: valid, stage-1-invalid, stage-2-invalid, below and above 8 KiB
			in, kind = genReuseInput(t)
		case 1: // a valid large document with one scope too many or too few, still ending in a closing bracket
			base, _ := genReuseInput(t)
			switch rapid.IntRange(0, 4).Draw(t, "unbalance") {
			case 0:
				in = append([]byte("["), base...)
			case 1:
				in = append([]byte(`{"a":`), base...)
			case 2:
				in = append(append([]byte(nil), base...), ']')
			case 3:
				in = append(append([]byte("[["), base...), ']')
			default:
				in = append(append([]byte(`[{"a":[`), base...), []byte("]}")...)
			}
			kind = "unbalanced"
		case 2:
			in, _ = genNDInput(t)
			nd = true
			kind = "ndjson"
		default:
			text, toks := render(genDoc(t, pickProfile(t)), genLayout(t, false))
			in, _ = mutate(t, text, toks)
		}
		c17AnyRun(t, c17AnyCase{In: in, ND: nd})
		col("C17").Eval(len(in) > 2, evidHash(in, []byte{b2i(nd)}), "gen:any-input/"+kind)
	})
	col("C17").Completed("TestC17_Accepted")
}
