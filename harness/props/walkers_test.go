package props

import (
	"bytes"
	"errors"
	"fmt"
	"strconv"

	simdjson "github.com/minio/simdjson-go"
)

// Independent readers of a ParsedJson. Each returns the canonical rendering (see model_test.go) of all
// roots, joined by '\n'.

type walker struct {
	name string
	fn   func(pj *simdjson.ParsedJson) ([]byte, error)
	opts canonOpts // how the model must be rendered to compare with this walker
}

var (
	wW1 = walker{"W1:Advance+typed+NextElementBytes", walkW1, canonOpts{}}
	wW2 = walker{"W2:AdvanceInto", walkW2, canonOpts{}}
	wW3 = walker{"W3:AdvanceIter", walkW3, canonOpts{}}
	wW4 = walker{"W4:ForEach", walkW4, canonOpts{}}
	wW5 = walker{"W5:Interface", walkW5, canonOpts{noFlags: true, mapMode: true}}
)

var wW6 = walker{"W6:Object.Parse+Elements", walkW6, canonOpts{}}

var allWalkers = []walker{wW1, wW2, wW3, wW4, wW5, wW6}

// ---- scalar helper shared by the walkers: renders the value queued in it (type typ) ----

func scalarCanon(out []byte, it *simdjson.Iter, typ simdjson.Type) ([]byte, error) {
	switch typ {
	case simdjson.TypeNull:
		return append(out, 'n'), nil
	case simdjson.TypeBool:
		b, err := it.Bool()
		if err != nil {
			return out, fmt.Errorf("Bool(): %v", err)
		}
		if b {
			return append(out, 't'), nil
		}
		return append(out, 'f'), nil
	case simdjson.TypeInt:
		v, err := it.Int()
		if err != nil {
			return out, fmt.Errorf("Int(): %v", err)
		}
		// cross-type reads of the same entry
		if u, uerr := it.Uint(); (uerr == nil) != (v >= 0) || (uerr == nil && u != uint64(v)) {
			return out, fmt.Errorf("Uint() on the int %d = %d, %v", v, u, uerr)
		}
		if f, ferr := it.Float(); ferr != nil || f != float64(v) {
			return out, fmt.Errorf("Float() on the int %d = %v, %v", v, f, ferr)
		}
		return canonNum(out, 'i', uint64(v), false, canonOpts{}), nil
	case simdjson.TypeUint:
		v, err := it.Uint()
		if err != nil {
			return out, fmt.Errorf("Uint(): %v", err)
		}
		if i, ierr := it.Int(); (ierr == nil) != (v <= 1<<63-1) || (ierr == nil && uint64(i) != v) {
			return out, fmt.Errorf("Int() on the uint %d = %d, %v", v, i, ierr)
		}
		if f, ferr := it.Float(); ferr != nil || f != float64(v) {
			return out, fmt.Errorf("Float() on the uint %d = %v, %v", v, f, ferr)
		}
		return canonNum(out, 'u', v, false, canonOpts{}), nil
	case simdjson.TypeFloat:
		v, fl, err := it.FloatFlags()
		if err != nil {
			return out, fmt.Errorf("FloatFlags(): %v", err)
		}
		v2, err := it.Float()
		if err != nil || mathBits(v2) != mathBits(v) {
			return out, fmt.Errorf("Float() = %v,%v disagrees with FloatFlags() = %v", v2, err, v)
		}
		return canonNum(out, 'f', mathBits(v), fl.Contains(simdjson.FloatOverflowedInteger), canonOpts{}), nil
	case simdjson.TypeString:
		b, err := it.StringBytes()
		if err != nil {
			return out, fmt.Errorf("StringBytes(): %v", err)
		}
		s, err := it.String()
		if err != nil || s != string(b) {
			return out, fmt.Errorf("String() = %q,%v disagrees with StringBytes() = %q", s, err, b)
		}
		return canonStr(out, b), nil
	}
	return out, fmt.Errorf("scalarCanon: unexpected type %v", typ)
}

// ---- W1 ----

// wrongTypeProbe: on the value queued in it (type typ), every typed accessor that does not apply to that type must
// return an error instead of a value, and StringCvt must give the documented text for null, booleans and integers.
// (Int/Uint/Float convert between the numeric types; those conversions are judged in scalarCanon and C12.)
func wrongTypeProbe(it *simdjson.Iter, typ simdjson.Type) error {
	cp := it // on the walker's own iterator: a read accessor that moved or changed it would derail the walk
	isNum := typ == simdjson.TypeInt || typ == simdjson.TypeUint || typ == simdjson.TypeFloat
	if typ != simdjson.TypeBool {
		if v, err := cp.Bool(); err == nil {
			return fmt.Errorf("Bool() on a %v returned %v without error", typ, v)
		}
	}
	if !isNum {
		if v, err := cp.Int(); err == nil {
			return fmt.Errorf("Int() on a %v returned %v without error", typ, v)
		}
		if v, err := cp.Uint(); err == nil {
			return fmt.Errorf("Uint() on a %v returned %v without error", typ, v)
		}
		if v, err := cp.Float(); err == nil {
			return fmt.Errorf("Float() on a %v returned %v without error", typ, v)
		}
		if v, _, err := cp.FloatFlags(); err == nil {
			return fmt.Errorf("FloatFlags() on a %v returned %v without error", typ, v)
		}
	}
	if typ != simdjson.TypeString {
		if v, err := cp.String(); err == nil {
			return fmt.Errorf("String() on a %v returned %q without error", typ, v)
		}
		if v, err := cp.StringBytes(); err == nil {
			return fmt.Errorf("StringBytes() on a %v returned %q without error", typ, v)
		}
	}
	if typ != simdjson.TypeObject {
		if _, err := cp.Object(nil); err == nil {
			return fmt.Errorf("Object() on a %v succeeded", typ)
		}
	}
	if typ != simdjson.TypeArray {
		if _, err := cp.Array(nil); err == nil {
			return fmt.Errorf("Array() on a %v succeeded", typ)
		}
	}
	if _, _, err := cp.Root(nil); err == nil {
		return fmt.Errorf("Root() on a %v succeeded", typ)
	}
	sc, err := cp.StringCvt()
	switch typ {
	case simdjson.TypeNull:
		if err != nil || sc != "null" {
			return fmt.Errorf("StringCvt() on null = %q, %v", sc, err)
		}
	case simdjson.TypeBool:
		b, _ := cp.Bool()
		if err != nil || sc != strconv.FormatBool(b) {
			return fmt.Errorf("StringCvt() on the bool %v = %q, %v", b, sc, err)
		}
	case simdjson.TypeInt:
		v, _ := cp.Int()
		if err != nil || sc != strconv.FormatInt(v, 10) {
			return fmt.Errorf("StringCvt() on the int %d = %q, %v", v, sc, err)
		}
	case simdjson.TypeUint:
		v, _ := cp.Uint()
		if err != nil || sc != strconv.FormatUint(v, 10) {
			return fmt.Errorf("StringCvt() on the uint %d = %q, %v", v, sc, err)
		}
	case simdjson.TypeString:
		b, _ := cp.StringBytes()
		if err != nil || sc != string(b) {
			return fmt.Errorf("StringCvt() on the string %q = %q, %v", b, sc, err)
		}
	case simdjson.TypeObject, simdjson.TypeArray:
		if err == nil {
			return fmt.Errorf("StringCvt() on a %v returned %q without error", typ, sc)
		}
	}
	return nil
}

// bulkAgreesWithTraversal: the bulk accessors of an Array return what reading its elements one by one returns - the
// same values when every element converts, an error when one of them does not (arrays of up to 64 elements).
func bulkAgreesWithTraversal(arr *simdjson.Array) error {
	var fl []float64
	var in []int64
	var un []uint64
	var ss []string
	flOK, inOK, unOK, ssOK := true, true, true, true
	ai := arr.Iter()
	n := 0
	for {
		t := ai.Advance()
		if t == simdjson.TypeNone {
			break
		}
		if n++; n > 64 {
			return nil
		}
		if v, err := ai.Float(); err == nil {
			fl = append(fl, v)
		} else {
			flOK = false
		}
		if v, err := ai.Int(); err == nil {
			in = append(in, v)
		} else {
			inOK = false
		}
		if v, err := ai.Uint(); err == nil {
			un = append(un, v)
		} else {
			unOK = false
		}
		if v, err := ai.String(); err == nil {
			ss = append(ss, v)
		} else {
			ssOK = false
		}
	}
	// (AsFloat/AsInteger/AsUint64 advance the Array they are called on: each call gets its own copy)
	c1 := *arr
	if got, err := c1.AsFloat(); (err == nil) != flOK {
		return fmt.Errorf("AsFloat() = %v, %v on an array whose elements read one by one convert to float: %v", got, err, flOK)
	} else if err == nil {
		if len(got) != len(fl) {
			return fmt.Errorf("AsFloat() returned %d values, the array has %d elements", len(got), len(fl))
		}
		for i := range fl {
			if mathBits(got[i]) != mathBits(fl[i]) {
				return fmt.Errorf("AsFloat()[%d] = %v, Float() on that element = %v", i, got[i], fl[i])
			}
		}
	}
	c2 := *arr
	if got, err := c2.AsInteger(); (err == nil) != inOK {
		return fmt.Errorf("AsInteger() = %v, %v on an array whose elements read one by one convert to int64: %v", got, err, inOK)
	} else if err == nil {
		if len(got) != len(in) {
			return fmt.Errorf("AsInteger() returned %d values, the array has %d elements", len(got), len(in))
		}
		for i := range in {
			if got[i] != in[i] {
				return fmt.Errorf("AsInteger()[%d] = %v, Int() on that element = %v", i, got[i], in[i])
			}
		}
	}
	c3 := *arr
	if got, err := c3.AsUint64(); (err == nil) != unOK {
		return fmt.Errorf("AsUint64() = %v, %v on an array whose elements read one by one convert to uint64: %v", got, err, unOK)
	} else if err == nil {
		if len(got) != len(un) {
			return fmt.Errorf("AsUint64() returned %d values, the array has %d elements", len(got), len(un))
		}
		for i := range un {
			if got[i] != un[i] {
				return fmt.Errorf("AsUint64()[%d] = %v, Uint() on that element = %v", i, got[i], un[i])
			}
		}
	}
	c4 := *arr
	if got, err := c4.AsString(); (err == nil) != ssOK {
		return fmt.Errorf("AsString() = %q, %v on an array whose elements read one by one are strings: %v", got, err, ssOK)
	} else if err == nil {
		if len(got) != len(ss) {
			return fmt.Errorf("AsString() returned %d values, the array has %d elements", len(got), len(ss))
		}
		for i := range ss {
			if got[i] != ss[i] {
				return fmt.Errorf("AsString()[%d] = %q, String() on that element = %q", i, got[i], ss[i])
			}
		}
	}
	return nil
}

// w1State: per-walk state of W1. The destination Objects/Arrays handed to Iter.Object(dst)/Iter.Array(dst) are
// recycled per nesting depth; a state that is kept across walks (C15 does that for all walks of one case) makes every
// walk use destinations that served another document - possibly on the same, reused ParsedJson - before.
type w1State struct {
	bulk   int
	probes int
	depth  int
	objs   []*simdjson.Object
	arrs   []*simdjson.Array
	elems  []*simdjson.Iter
}

// elemDst: the destination Iter handed to NextElementBytes, recycled per nesting depth like the Object/Array destinations.
func (st *w1State) elemDst() *simdjson.Iter {
	if st.depth >= 256 {
		return &simdjson.Iter{}
	}
	for len(st.elems) <= st.depth {
		st.elems = append(st.elems, &simdjson.Iter{})
	}
	return st.elems[st.depth]
}

func (st *w1State) objDst() *simdjson.Object {
	if st.depth >= 256 {
		return nil
	}
	for len(st.objs) <= st.depth {
		st.objs = append(st.objs, &simdjson.Object{})
	}
	return st.objs[st.depth]
}

func (st *w1State) arrDst() *simdjson.Array {
	if st.depth >= 256 {
		return nil
	}
	for len(st.arrs) <= st.depth {
		st.arrs = append(st.arrs, &simdjson.Array{})
	}
	return st.arrs[st.depth]
}

func walkW1(pj *simdjson.ParsedJson) ([]byte, error) { return walkW1State(pj, &w1State{}) }

func walkW1State(pj *simdjson.ParsedJson, st *w1State) ([]byte, error) {
	it := pj.Iter()
	var out []byte
	n := 0
	st.probes, st.depth, st.bulk = 0, 0, 0
	for {
		typ := it.Advance()
		if typ == simdjson.TypeNone {
			break
		}
		if typ != simdjson.TypeRoot {
			return out, fmt.Errorf("W1: top-level Advance gave %v, want root", typ)
		}
		var tmp simdjson.Iter
		t2, r, err := it.Root(&tmp)
		if err != nil {
			return out, fmt.Errorf("W1: Root(): %v", err)
		}
		if n > 0 {
			out = append(out, '\n')
		}
		n++
		out, err = st.value(out, r, t2)
		if err != nil {
			return out, err
		}
		// a root whose content is a scalar (a top-level container that was set to null): the Root() iterator holds
		// exactly that value, advancing past it ends the iteration. (On a container Advance steps into it: Root()
		// positions its iterator with AdvanceInto.)
		if t2 != simdjson.TypeNone && t2 != simdjson.TypeObject && t2 != simdjson.TypeArray {
			if t3 := r.Advance(); t3 != simdjson.TypeNone {
				return out, fmt.Errorf("W1: the Root() iterator of root %d yields a second value of type %v", n-1, t3)
			}
		}
	}
	if n == 0 {
		return out, errors.New("W1: no root element")
	}
	return out, nil
}

func (st *w1State) value(out []byte, it *simdjson.Iter, typ simdjson.Type) ([]byte, error) {
	if it.Type() != typ {
		return out, fmt.Errorf("W1: Type() = %v after Advance returned %v", it.Type(), typ)
	}
	if st.probes < 48 {
		// the first values of every walk (bounded: the walkers run on every case of every check)
		st.probes++
		if err := wrongTypeProbe(it, typ); err != nil {
			return out, fmt.Errorf("W1: %v", err)
		}
	}
	switch typ {
	case simdjson.TypeArray:
		arr, err := it.Array(st.arrDst())
		if err != nil {
			return out, fmt.Errorf("W1: Array(): %v", err)
		}
		st.depth++
		defer func() { st.depth-- }()
		out = append(out, '[')
		ai := arr.Iter()
		first := true
		for {
			t := ai.Advance()
			if t == simdjson.TypeNone {
				break
			}
			if !first {
				out = append(out, ',')
			}
			first = false
			out, err = st.value(out, &ai, t)
			if err != nil {
				return out, err
			}
		}
		ft := arr.FirstType()
		if first != (ft == simdjson.TypeNone) {
			return out, fmt.Errorf("W1: FirstType() = %v but array empty = %v", ft, first)
		}
		if st.bulk < 6 {
			st.bulk++
			if err := bulkAgreesWithTraversal(arr); err != nil {
				return out, fmt.Errorf("W1: %v", err)
			}
		}
		return append(out, ']'), nil
	case simdjson.TypeObject:
		obj, err := it.Object(st.objDst())
		if err != nil {
			return out, fmt.Errorf("W1: Object(): %v", err)
		}
		elem := st.elemDst()
		st.depth++
		defer func() { st.depth-- }()
		out = append(out, '{')
		first := true
		for {
			name, t, err := obj.NextElementBytes(elem)
			if err != nil {
				return out, fmt.Errorf("W1: NextElementBytes: %v", err)
			}
			if t == simdjson.TypeNone {
				break
			}
			if !first {
				out = append(out, ',')
			}
			first = false
			out = canonStr(out, name)
			out = append(out, '=')
			out, err = st.value(out, elem, t)
			if err != nil {
				return out, err
			}
		}
		return append(out, '}'), nil
	case simdjson.TypeRoot, simdjson.TypeNone:
		return out, fmt.Errorf("W1: unexpected %v inside a value", typ)
	}
	return scalarCanon(out, it, typ)
}

// ---- W2: raw tag walk ----

func walkW2(pj *simdjson.ParsedJson) ([]byte, error) {
	it := pj.Iter()
	var out []byte
	type fr struct {
		kind  byte // 'r', '[', '{'
		n     int  // values emitted
		isKey bool // object: next string is a key
	}
	var st []fr
	roots := 0
	emitSep := func() {
		if len(st) == 0 {
			return
		}
		top := &st[len(st)-1]
		if top.kind == '{' {
			return // handled at key
		}
		if top.kind == '[' && top.n > 0 {
			out = append(out, ',')
		}
		top.n++
	}
	afterValue := func() {
		if len(st) > 0 && st[len(st)-1].kind == '{' {
			st[len(st)-1].isKey = true
		}
	}
	for steps := 0; ; steps++ {
		tag := it.AdvanceInto()
		if tag == simdjson.TagEnd {
			break
		}
		if len(st) > 0 && st[len(st)-1].kind == '{' && st[len(st)-1].isKey && tag != simdjson.TagObjectEnd {
			if tag != simdjson.TagString {
				return out, fmt.Errorf("W2: object key has tag %q", tag)
			}
			top := &st[len(st)-1]
			if top.n > 0 {
				out = append(out, ',')
			}
			top.n++
			b, err := it.StringBytes()
			if err != nil {
				return out, fmt.Errorf("W2: key StringBytes: %v", err)
			}
			out = canonStr(out, b)
			out = append(out, '=')
			top.isKey = false
			continue
		}
		switch tag {
		case simdjson.TagRoot:
			if len(st) > 0 && st[len(st)-1].kind == 'r' {
				if st[len(st)-1].n != 1 {
					return out, fmt.Errorf("W2: root closed with %d values", st[len(st)-1].n)
				}
				st = st[:len(st)-1]
			} else if len(st) == 0 {
				if roots > 0 {
					out = append(out, '\n')
				}
				roots++
				st = append(st, fr{kind: 'r'})
			} else {
				return out, errors.New("W2: root tag inside a container")
			}
		case simdjson.TagObjectStart:
			emitSep()
			out = append(out, '{')
			st = append(st, fr{kind: '{', isKey: true})
		case simdjson.TagArrayStart:
			emitSep()
			out = append(out, '[')
			st = append(st, fr{kind: '['})
		case simdjson.TagObjectEnd:
			if len(st) == 0 || st[len(st)-1].kind != '{' || !st[len(st)-1].isKey {
				return out, errors.New("W2: unbalanced object end")
			}
			st = st[:len(st)-1]
			out = append(out, '}')
			afterValue()
		case simdjson.TagArrayEnd:
			if len(st) == 0 || st[len(st)-1].kind != '[' {
				return out, errors.New("W2: unbalanced array end")
			}
			st = st[:len(st)-1]
			out = append(out, ']')
			afterValue()
		default:
			typ := tag.Type()
			if typ == simdjson.TypeNone {
				return out, fmt.Errorf("W2: undocumented tag %q (%d)", tag, tag)
			}
			emitSep()
			var err error
			out, err = scalarCanon(out, &it, typ)
			if err != nil {
				return out, fmt.Errorf("W2: %v", err)
			}
			afterValue()
		}
	}
	if len(st) != 0 {
		return out, fmt.Errorf("W2: tape ended with %d open scopes", len(st))
	}
	if roots == 0 {
		return out, errors.New("W2: no root element")
	}
	return out, nil
}

// ---- W3: AdvanceIter recursion ----

func walkW3(pj *simdjson.ParsedJson) ([]byte, error) {
	it := pj.Iter()
	var out []byte
	n := 0
	for {
		var r simdjson.Iter
		typ, err := it.AdvanceIter(&r)
		if err != nil {
			return out, fmt.Errorf("W3: AdvanceIter: %v", err)
		}
		if typ == simdjson.TypeNone {
			break
		}
		if typ != simdjson.TypeRoot {
			return out, fmt.Errorf("W3: top-level type %v", typ)
		}
		if n > 0 {
			out = append(out, '\n')
		}
		n++
		var v simdjson.Iter
		t2, err := r.AdvanceIter(&v)
		if err != nil {
			return out, fmt.Errorf("W3: AdvanceIter in root: %v", err)
		}
		out, err = w3Value(out, &v, t2)
		if err != nil {
			return out, err
		}
	}
	if n == 0 {
		return out, errors.New("W3: no root element")
	}
	return out, nil
}

func w3Value(out []byte, it *simdjson.Iter, typ simdjson.Type) ([]byte, error) {
	switch typ {
	case simdjson.TypeArray:
		out = append(out, '[')
		first := true
		for {
			var e simdjson.Iter
			t, err := it.AdvanceIter(&e)
			if err != nil {
				return out, fmt.Errorf("W3: AdvanceIter in array: %v", err)
			}
			if t == simdjson.TypeNone {
				break
			}
			if !first {
				out = append(out, ',')
			}
			first = false
			out, err = w3Value(out, &e, t)
			if err != nil {
				return out, err
			}
		}
		return append(out, ']'), nil
	case simdjson.TypeObject:
		out = append(out, '{')
		first := true
		for {
			var k, e simdjson.Iter
			t, err := it.AdvanceIter(&k)
			if err != nil {
				return out, fmt.Errorf("W3: AdvanceIter for key: %v", err)
			}
			if t == simdjson.TypeNone {
				break
			}
			if t != simdjson.TypeString {
				return out, fmt.Errorf("W3: key of type %v", t)
			}
			kb, err := k.StringBytes()
			if err != nil {
				return out, fmt.Errorf("W3: key StringBytes: %v", err)
			}
			if !first {
				out = append(out, ',')
			}
			first = false
			out = canonStr(out, kb)
			out = append(out, '=')
			t, err = it.AdvanceIter(&e)
			if err != nil || t == simdjson.TypeNone {
				return out, fmt.Errorf("W3: no value for key %q (%v, %v)", kb, t, err)
			}
			out, err = w3Value(out, &e, t)
			if err != nil {
				return out, err
			}
		}
		return append(out, '}'), nil
	case simdjson.TypeRoot, simdjson.TypeNone:
		return out, fmt.Errorf("W3: unexpected %v inside a value", typ)
	}
	return scalarCanon(out, it, typ)
}

// ---- W4: ForEach ----

func walkW4(pj *simdjson.ParsedJson) ([]byte, error) {
	var out []byte
	n := 0
	err := pj.ForEach(func(i simdjson.Iter) error {
		if n > 0 {
			out = append(out, '\n')
		}
		n++
		var err error
		out, err = w4Value(out, &i, i.Type())
		return err
	})
	if err != nil {
		return out, fmt.Errorf("W4: %v", err)
	}
	if n == 0 {
		return out, errors.New("W4: no root element")
	}
	return out, nil
}

func w4Value(out []byte, it *simdjson.Iter, typ simdjson.Type) ([]byte, error) {
	switch typ {
	case simdjson.TypeArray:
		arr, err := it.Array(nil)
		if err != nil {
			return out, fmt.Errorf("Array(): %v", err)
		}
		out = append(out, '[')
		first := true
		var ierr error
		arr.ForEach(func(i simdjson.Iter) {
			if ierr != nil {
				return
			}
			if !first {
				out = append(out, ',')
			}
			first = false
			out, ierr = w4Value(out, &i, i.Type())
		})
		if ierr != nil {
			return out, ierr
		}
		return append(out, ']'), nil
	case simdjson.TypeObject:
		obj, err := it.Object(nil)
		if err != nil {
			return out, fmt.Errorf("Object(): %v", err)
		}
		out = append(out, '{')
		first := true
		var ierr error
		err = obj.ForEach(func(key []byte, i simdjson.Iter) {
			if ierr != nil {
				return
			}
			if !first {
				out = append(out, ',')
			}
			first = false
			out = canonStr(out, key)
			out = append(out, '=')
			out, ierr = w4Value(out, &i, i.Type())
		}, nil)
		if err != nil {
			return out, fmt.Errorf("Object.ForEach: %v", err)
		}
		if ierr != nil {
			return out, ierr
		}
		return append(out, '}'), nil
	case simdjson.TypeRoot, simdjson.TypeNone:
		return out, fmt.Errorf("unexpected %v inside a value", typ)
	}
	return scalarCanon(out, it, typ)
}

// ---- W5: Interface ----

func walkW5(pj *simdjson.ParsedJson) ([]byte, error) {
	it := pj.Iter()
	v, err := it.Interface()
	if err != nil {
		return nil, fmt.Errorf("W5: Interface(): %v", err)
	}
	roots, ok := v.([]interface{})
	if !ok {
		return nil, fmt.Errorf("W5: Interface() on the tape returned %T, want []interface{}", v)
	}
	if len(roots) == 0 {
		return nil, errors.New("W5: no root element")
	}
	var out []byte
	for i, r := range roots {
		if i > 0 {
			out = append(out, '\n')
		}
		out = canonIface(out, r)
	}
	return out, nil
}

// compareWalkers runs the walkers and compares each with the model rendering.
// modelCanon is called with the walker's options.
func compareWalkers(pj *simdjson.ParsedJson, ws []walker, modelCanon func(o canonOpts) []byte) error {
	cache := map[canonOpts][]byte{}
	for _, w := range ws {
		want, ok := cache[w.opts]
		if !ok {
			want = modelCanon(w.opts)
			cache[w.opts] = want
		}
		got, err := w.fn(pj)
		if err != nil {
			return fmt.Errorf("%s failed: %v", w.name, err)
		}
		if !bytes.Equal(want, got) {
			return fmt.Errorf("%s exposes a different document: %s", w.name, diffCanon(want, got))
		}
	}
	return nil
}

// ---- W6: Object.Parse / Elements (reused destination) + Array.Iter ----

func walkW6(pj *simdjson.ParsedJson) ([]byte, error) {
	var out []byte
	n := 0
	var reuse *simdjson.Elements
	err := pj.ForEach(func(i simdjson.Iter) error {
		if n > 0 {
			out = append(out, '\n')
		}
		n++
		var err error
		out, err = w6Value(out, &i, i.Type(), &reuse, 0)
		return err
	})
	if err != nil {
		return out, fmt.Errorf("W6: %v", err)
	}
	if n == 0 {
		return out, errors.New("W6: no root element")
	}
	return out, nil
}

func w6Value(out []byte, it *simdjson.Iter, typ simdjson.Type, reuse **simdjson.Elements, depth int) ([]byte, error) {
	switch typ {
	case simdjson.TypeArray:
		arr, err := it.Array(nil)
		if err != nil {
			return out, fmt.Errorf("Array(): %v", err)
		}
		out = append(out, '[')
		ai := arr.Iter()
		first := true
		for {
			t := ai.Advance()
			if t == simdjson.TypeNone {
				break
			}
			if !first {
				out = append(out, ',')
			}
			first = false
			out, err = w6Value(out, &ai, t, reuse, depth+1)
			if err != nil {
				return out, err
			}
		}
		return append(out, ']'), nil
	case simdjson.TypeObject:
		obj, err := it.Object(nil)
		if err != nil {
			return out, fmt.Errorf("Object(): %v", err)
		}
		// every other object is parsed into the destination used by the previous one
		var dst *simdjson.Elements
		if depth%2 == 0 {
			dst = *reuse
		}
		els, err := obj.Parse(dst)
		if err != nil {
			return out, fmt.Errorf("Object.Parse: %v", err)
		}
		// the elements are copied out before recursing, because nested objects reuse the destination
		elems := append([]simdjson.Element(nil), els.Elements...)
		for _, e := range elems {
			lk := els.Lookup(e.Name)
			if lk == nil || lk.Name != e.Name {
				return out, fmt.Errorf("Elements.Lookup(%q) does not find a listed member", e.Name)
			}
		}
		if len(els.Index) > len(elems) {
			return out, fmt.Errorf("Elements.Index holds %d keys for %d members", len(els.Index), len(elems))
		}
		if depth%2 == 0 {
			*reuse = els
		}
		out = append(out, '{')
		for i := range elems {
			if i > 0 {
				out = append(out, ',')
			}
			out = canonStr(out, []byte(elems[i].Name))
			out = append(out, '=')
			e := elems[i].Iter
			if e.Type() != elems[i].Type {
				return out, fmt.Errorf("Element %q: Type field %v, iterator type %v", elems[i].Name, elems[i].Type, e.Type())
			}
			out, err = w6Value(out, &e, elems[i].Type, reuse, depth+1)
			if err != nil {
				return out, err
			}
		}
		return append(out, '}'), nil
	case simdjson.TypeRoot, simdjson.TypeNone:
		return out, fmt.Errorf("unexpected %v inside a value", typ)
	}
	return scalarCanon(out, it, typ)
}
