package props

import (
	"bytes"
	"encoding/json"
	"fmt"
	"strings"
	"testing"

	simdjson "github.com/minio/simdjson-go"
	"pgregory.net/rapid"

	rj "verifharness/internal/refjson"
)

// C13: in-place replacement changes exactly the addressed value.
// C14: deletion removes exactly the selected members and all APIs agree after it.
// C10: MarshalJSON emits valid JSON denoting the same document.

// (the deep-spine profile is about 30 times as expensive per case as the others: one case in fourteen)
var editProfiles = []docProfile{profTiny, profTiny, profMedium, profKeys, profUniq, profStr, profNum, profTiny, profMedium, profKeys, profUniq, profStr, profNum, profDeep}

func c13Check(c historyCase) error { return runHistory(c, fullInvariants, c13After) }

// c13After: Set* calls on positions that hold no value at all - an iterator that was never advanced and iterators that
// AdvanceInto left on a closing ] or } - are calls "the documentation disallows for the current type": each must return
// an error and change nothing (closing root tags are left alone: root tags are outside the claim, DESIGN section 6).
func c13After(step int, pj *simdjson.ParsedJson, roots []*rj.Node) error {
	before := append([]uint64(nil), pj.Tape...)
	strBefore := append([]byte(nil), pj.Strings.B...)
	var positions []simdjson.Iter
	positions = append(positions, pj.Iter())
	it := pj.Iter()
	ends := 0
	for n := 0; n < 4000 && ends < 6; n++ {
		tag := it.AdvanceInto()
		if tag == simdjson.TagEnd {
			break
		}
		if tag == simdjson.TagObjectEnd || tag == simdjson.TagArrayEnd {
			// sample: the first two and then every third closing tag
			if ends < 2 || n%3 == 0 {
				positions = append(positions, it)
				ends++
			}
		}
	}
	calls := []struct {
		name string
		fn   func(i *simdjson.Iter) error
	}{
		{"SetNull", func(i *simdjson.Iter) error { return i.SetNull() }},
		{"SetBool", func(i *simdjson.Iter) error { return i.SetBool(true) }},
		{"SetInt", func(i *simdjson.Iter) error { return i.SetInt(-7) }},
		{"SetUInt", func(i *simdjson.Iter) error { return i.SetUInt(7) }},
		{"SetFloat", func(i *simdjson.Iter) error { return i.SetFloat(1.5) }},
		{"SetString", func(i *simdjson.Iter) error { return i.SetString("x") }},
		{"SetStringBytes", func(i *simdjson.Iter) error { return i.SetStringBytes([]byte("yz")) }},
	}
	for pi, pos := range positions {
		for _, c := range calls {
			cp := pos
			err := c.fn(&cp)
			where := "a closing tag"
			if pi == 0 {
				where = "an iterator that was never advanced"
			}
			if err == nil {
				return fmt.Errorf("%s on %s (tag %q) succeeded; there is no value to replace there", c.name, where, byte(pos.PeekNextTag()))
			}
			if len(pj.Tape) != len(before) {
				return fmt.Errorf("%s on %s failed (%v) but changed the tape length", c.name, where, err)
			}
			for k := range before {
				if before[k] != pj.Tape[k] {
					return fmt.Errorf("%s on %s failed (%v) but changed tape[%d]", c.name, where, err, k)
				}
			}
			if !bytes.Equal(strBefore, pj.Strings.B) {
				return fmt.Errorf("%s on %s failed (%v) but changed the string buffer", c.name, where, err)
			}
		}
	}
	return nil
}
func c14Check(c historyCase) error {
	c14ReuseEls, c14PrevKeys = nil, nil // per-case state, so that a case replays on its own
	return runHistory(c, fullInvariants, c14After)
}
func c10Check(c historyCase) error {
	return runHistory(c, invariantSet{marshal: true, tape: false, walkers: false, serialize: false}, c10After)
}

var c13Run = register("C13", "history", c13Check)
var c14Run = register("C14", "history", c14Check)
var c10Run = register("C10", "history", c10Check)

func historyHash(c historyCase) uint64 {
	b, _ := json.Marshal(c.Ops)
	return evidHash(c.Doc, b, []byte{b2i(c.ND), b2i(c.Copy)})
}

func b2i(b bool) byte {
	if b {
		return 1
	}
	return 0
}

func historySample(c historyCase) interface{} {
	ops := []string{}
	for _, o := range c.Ops {
		ops = append(ops, o.String())
	}
	return map[string]interface{}{"doc": clip(c.Doc), "nd": c.ND, "copy": c.Copy, "ops": ops}
}

// simulate classifies a history on the model only.
type historyFacts struct {
	okKinds       map[string]bool
	twoWordOrCont bool
	realDeletes   int
	illegal       int
	nopGap        bool
	keyFilter     int
}

func historyFactsOf(c historyCase) historyFacts {
	f := historyFacts{okKinds: map[string]bool{}}
	roots, err := parseModelRoots(c.Doc, c.ND)
	if err != nil {
		return f
	}
	for _, op := range c.Ops {
		_, _, node, _ := modelSlot(roots, op.Path)
		pre := 0
		if node != nil {
			pre = len(node.A) + len(node.O)
		}
		kindBefore := rj.Null
		if node != nil {
			kindBefore = node.K
		}
		wantErr, _, err := applyModel(roots, op)
		if err != nil {
			return f
		}
		if wantErr {
			f.illegal++
			continue
		}
		f.okKinds[op.Kind] = true
		if strings.HasPrefix(op.Kind, "Set") && (kindBefore == rj.Num || kindBefore == rj.Str || kindBefore == rj.Arr || kindBefore == rj.Obj) {
			f.twoWordOrCont = true
			if op.Kind == "SetNull" {
				f.nopGap = true
			}
		}
		if strings.HasPrefix(op.Kind, "Del") {
			_, _, after, _ := modelSlot(roots, op.Path)
			if after != nil && len(after.A)+len(after.O) < pre {
				f.realDeletes++
				f.nopGap = true
			}
			if op.Keys != nil {
				f.keyFilter++
			}
		}
	}
	return f
}

func TestC13_Histories(t *testing.T) {
	mix := opMix{sets: true, badSets: true, setNullContainer: true, nullRoot: true}
	runRapid(t, "C13_Histories", nCases(100_000, 1_000_000), func(t *rapid.T) {
		maxOps := 12
		if thorough() {
			maxOps = 40
		}
		c := genHistory(t, mix, maxOps, editProfiles)
		c13Run(t, c)
		f := historyFactsOf(c)
		cl := col("C13")
		cls := []string{boolClass("nd", c.ND), boolClass("copy", c.Copy), fmt.Sprintf("ops:%d", bucket(len(c.Ops)))}
		for k := range f.okKinds {
			cls = append(cls, "ok:"+k)
		}
		if f.illegal > 0 {
			cls = append(cls, "has-illegal-call")
		}
		cl.Eval(len(f.okKinds) >= 2 && f.twoWordOrCont, historyHash(c), cls...)
		cl.Sample(func() interface{} { return historySample(c) })
	})
	col("C13").Completed("TestC13_Histories")
}

func bucket(n int) int {
	switch {
	case n <= 1:
		return 1
	case n <= 4:
		return 4
	case n <= 12:
		return 12
	}
	return 40
}

// c14After: additional readers after every step: lookups through the Advance-based APIs must find every survivor.
func c14After(step int, pj *simdjson.ParsedJson, roots []*rj.Node) error {
	return lookupAllMembers(pj, roots)
}

var (
	c14ReuseEls *simdjson.Elements
	c14PrevKeys []string
)

// lookupAllMembers: for every object in the model, FindKey(first occurrence of each key) and FindPath agree with the model;
// Object.Parse / Elements.Lookup / Map list exactly the survivors; Array.MarshalJSON / Elements.MarshalJSON denote them.
func lookupAllMembers(pj *simdjson.ParsedJson, roots []*rj.Node) error {
	count := 0
	var rec func(n *rj.Node, path []int) error
	rec = func(n *rj.Node, path []int) error {
		if count > 60 {
			return nil
		}
		switch n.K {
		case rj.Arr:
			count++
			it, err := locate(pj, roots, path, 1)
			if err != nil {
				return err
			}
			arr, err := it.Array(nil)
			if err != nil {
				return fmt.Errorf("Array() at %v: %v", path, err)
			}
			if !hasNonFinite(n) {
				out, err := arr.MarshalJSON()
				if err != nil {
					return fmt.Errorf("Array.MarshalJSON at %v: %v", path, err)
				}
				g, err := rj.ParseStrict(out)
				if err != nil {
					return fmt.Errorf("Array.MarshalJSON at %v is not valid JSON (%v): %q", path, err, clip(out))
				}
				if err := eqNumeric(n, g, fmt.Sprintf("Array.MarshalJSON at %v", path)); err != nil {
					return fmt.Errorf("%v\noutput: %q", err, clip(out))
				}
				// marshalling reads: the same Array value marshals to the same text again
				if out2, err := arr.MarshalJSON(); err != nil || !bytes.Equal(out, out2) {
					return fmt.Errorf("Array.MarshalJSON at %v, called a second time on the same Array: %q, %v; the first call gave %q", path, clip(out2), err, clip(out))
				}
			}
			for i, c := range n.A {
				if err := rec(c, append(append([]int(nil), path...), i)); err != nil {
					return err
				}
			}
		case rj.Obj:
			count++
			it, err := locate(pj, roots, path, 1)
			if err != nil {
				return err
			}
			obj, err := it.Object(nil)
			if err != nil {
				return fmt.Errorf("Object() at %v: %v", path, err)
			}
			seen := map[string]bool{}
			for _, m := range n.O {
				if seen[string(m.Key)] {
					continue
				}
				seen[string(m.Key)] = true
				o2 := *obj
				el := o2.FindKey(string(m.Key), nil)
				if el == nil {
					return fmt.Errorf("FindKey(%q) at %v returned nil although the member is live", m.Key, path)
				}
				if err := elementMatches(el, m.Val, fmt.Sprintf("FindKey(%q) at %v", m.Key, path)); err != nil {
					return err
				}
				o3 := *obj
				el2, err := o3.FindPath(nil, string(m.Key))
				if err != nil {
					return fmt.Errorf("FindPath(%q) at %v: %v", m.Key, path, err)
				}
				if err := elementMatches(el2, m.Val, fmt.Sprintf("FindPath(%q) at %v", m.Key, path)); err != nil {
					return err
				}
			}
			o4 := *obj
			if el := o4.FindKey("no-such-key-\x00", nil); el != nil {
				return fmt.Errorf("FindKey of an absent key at %v returned %q", path, el.Name)
			}
			// Parse: all survivors in order; the Elements destination is reused from object to object and from step to step
			o5 := *obj
			els, err := o5.Parse(c14ReuseEls)
			if err != nil {
				return fmt.Errorf("Object.Parse at %v: %v", path, err)
			}
			c14ReuseEls = els
			distinct := map[string]bool{}
			for _, m := range n.O {
				distinct[string(m.Key)] = true
			}
			if len(els.Index) != len(distinct) {
				return fmt.Errorf("Object.Parse at %v into a reused Elements: Index holds %d keys, the object has %d distinct keys", path, len(els.Index), len(distinct))
			}
			for _, k := range c14PrevKeys {
				if !distinct[k] {
					if el := els.Lookup(k); el != nil {
						return fmt.Errorf("Elements.Lookup(%q) at %v finds %q although no live member has that key (it was deleted, or belongs to the object parsed into the same Elements before)", k, path, el.Name)
					}
				}
			}
			c14PrevKeys = c14PrevKeys[:0]
			for k := range distinct {
				c14PrevKeys = append(c14PrevKeys, k)
			}
			if len(els.Elements) != len(n.O) {
				return fmt.Errorf("Object.Parse at %v lists %d members, the object has %d", path, len(els.Elements), len(n.O))
			}
			for i, m := range n.O {
				if els.Elements[i].Name != string(m.Key) {
					return fmt.Errorf("Object.Parse at %v: member %d is %q, want %q", path, i, els.Elements[i].Name, m.Key)
				}
				e := els.Elements[i]
				if err := elementMatches(&e, m.Val, fmt.Sprintf("Object.Parse member %d at %v", i, path)); err != nil {
					return err
				}
			}
			if !hasNonFinite(n) {
				out, err := els.MarshalJSON()
				if err != nil {
					return fmt.Errorf("Elements.MarshalJSON at %v: %v", path, err)
				}
				g, err := rj.ParseStrict(out)
				if err != nil {
					return fmt.Errorf("Elements.MarshalJSON at %v is not valid JSON (%v): %q", path, err, clip(out))
				}
				if err := eqNumeric(n, g, fmt.Sprintf("Elements.MarshalJSON at %v", path)); err != nil {
					return fmt.Errorf("%v\noutput: %q", err, clip(out))
				}
				// marshalling reads: the same Elements marshal to the same text again and their members stay usable
				if out2, err := els.MarshalJSON(); err != nil || !bytes.Equal(out, out2) {
					return fmt.Errorf("Elements.MarshalJSON at %v, called a second time on the same Elements: %q, %v; the first call gave %q", path, clip(out2), err, clip(out))
				}
				for i, m := range n.O {
					e := els.Elements[i]
					if err := elementMatches(&e, m.Val, fmt.Sprintf("after Elements.MarshalJSON: Object.Parse member %d at %v", i, path)); err != nil {
						return err
					}
				}
			}
			for i, m := range n.O {
				if err := rec(m.Val, append(append([]int(nil), path...), i)); err != nil {
					return err
				}
			}
		}
		return nil
	}
	for i, r := range roots {
		if err := rec(r, []int{i}); err != nil {
			return err
		}
	}
	return nil
}

// elementMatches: the element's iterator denotes the model node (type and, through MarshalJSON, content).
func elementMatches(el *simdjson.Element, n *rj.Node, what string) error {
	want := typeName(n)
	it := el.Iter
	if got := typeOfIter(&it); got != want {
		return fmt.Errorf("%s: element iterator has type %s, want %s", what, got, want)
	}
	if el.Type != it.Type() {
		return fmt.Errorf("%s: Element.Type %v differs from its iterator's type %v", what, el.Type, it.Type())
	}
	if hasNonFinite(n) {
		return nil
	}
	out, err := it.MarshalJSON()
	if err != nil {
		return fmt.Errorf("%s: MarshalJSON: %v", what, err)
	}
	return valueTextMatches(out, n, what)
}

// valueTextMatches: text is one JSON value (possibly a scalar) equal to the model node.
func valueTextMatches(out []byte, n *rj.Node, what string) error {
	g, err := rj.ParseStrict(append(append([]byte{'['}, out...), ']'))
	if err != nil || len(g.A) != 1 {
		return fmt.Errorf("%s: marshalled text is not a single JSON value (%v): %q", what, err, clip(out))
	}
	if err := eqNumeric(n, g.A[0], what); err != nil {
		return fmt.Errorf("%v\noutput: %q", err, clip(out))
	}
	return nil
}

func TestC14_Histories(t *testing.T) {
	mix := opMix{sets: true, delObj: true, delArr: true, setNullContainer: true, nullRoot: true}
	runRapid(t, "C14_Histories", nCases(100_000, 400_000), func(t *rapid.T) {
		maxOps := 10
		if thorough() {
			maxOps = 30
		}
		c := genHistory(t, mix, maxOps, editProfiles)
		c14Run(t, c)
		f := historyFactsOf(c)
		cl := col("C14")
		cls := []string{boolClass("nd", c.ND), boolClass("copy", c.Copy), fmt.Sprintf("ops:%d", bucket(len(c.Ops))), fmt.Sprintf("real-deletions:%d", bucket(f.realDeletes))}
		if f.keyFilter > 0 {
			cls = append(cls, "with-key-filter")
		}
		for k := range f.okKinds {
			cls = append(cls, "ok:"+k)
		}
		cl.Eval(f.realDeletes >= 1, historyHash(c), cls...)
		cl.Sample(func() interface{} { return historySample(c) })
	})
	col("C14").Completed("TestC14_Histories")
}

// c10After: marshal from iterators positioned on inner values, obtained in every supported way.
func c10After(step int, pj *simdjson.ParsedJson, roots []*rj.Node) error {
	if err := marshalEverywhere(pj, roots); err != nil {
		return err
	}
	// Array.MarshalJSON and Elements.MarshalJSON of every container
	return lookupAllMembers(pj, roots)
}

func marshalEverywhere(pj *simdjson.ParsedJson, roots []*rj.Node) error {
	// roots: Root() iterator, AdvanceIter iterator, ParsedJson.ForEach iterator
	{
		it := pj.Iter()
		for i, r := range roots {
			if t := it.Advance(); t != simdjson.TypeRoot {
				return fmt.Errorf("Advance to root %d: %v", i, t)
			}
			if hasNonFinite(r) {
				continue
			}
			_, ri, err := it.Root(nil)
			if err != nil {
				return fmt.Errorf("Root(): %v", err)
			}
			out, err := ri.MarshalJSON()
			if err != nil {
				return fmt.Errorf("MarshalJSON of the Root() iterator of root %d: %v", i, err)
			}
			if err := valueTextMatches(out, r, fmt.Sprintf("Root() iterator of root %d", i)); err != nil {
				return err
			}
		}
		i := 0
		var ferr error
		err := pj.ForEach(func(fi simdjson.Iter) error {
			if i < len(roots) && !hasNonFinite(roots[i]) && ferr == nil {
				out, err := fi.MarshalJSON()
				if err != nil {
					ferr = fmt.Errorf("MarshalJSON of the ParsedJson.ForEach iterator of root %d: %v", i, err)
				} else {
					ferr = valueTextMatches(out, roots[i], fmt.Sprintf("ParsedJson.ForEach iterator of root %d", i))
				}
			}
			i++
			return nil
		})
		if err != nil {
			return fmt.Errorf("ParsedJson.ForEach: %v", err)
		}
		if ferr != nil {
			return ferr
		}
		if i != len(roots) {
			return fmt.Errorf("ParsedJson.ForEach visited %d roots, want %d", i, len(roots))
		}
	}
	// inner values
	scalars, containers := valuePaths(roots)
	all := append(containers, scalars...)
	if len(all) > 40 {
		all = all[:40]
	}
	for _, p := range all {
		_, _, node, _ := modelSlot(roots, p)
		if hasNonFinite(node) {
			continue
		}
		parentPath := p[:len(p)-1]
		_, _, parent, _ := modelSlot(roots, parentPath)
		navs := []int{1}
		if parent.K == rj.Obj {
			navs = []int{1, 0, 3} // AdvanceIter, NextElement, FindKey
		}
		for _, nav := range navs {
			it, err := locate(pj, roots, p, nav)
			if err != nil {
				return err
			}
			out, err := it.MarshalJSON()
			if err != nil {
				return fmt.Errorf("MarshalJSON of the iterator at %v (nav %d): %v", p, nav, err)
			}
			if err := valueTextMatches(out, node, fmt.Sprintf("iterator at %v (nav %d)", p, nav)); err != nil {
				return err
			}

			// MarshalJSONBuffer appends
			it2, _ := locate(pj, roots, p, nav)
			out2, err := it2.MarshalJSONBuffer([]byte("PREFIX"))
			if err != nil || !bytes.HasPrefix(out2, []byte("PREFIX")) || !bytes.Equal(out2[6:], out) {
				return fmt.Errorf("MarshalJSONBuffer at %v does not append the same text: %q vs %q (%v)", p, clip(out2), clip(out), err)
			}
		}
	}
	return nil
}

func c10Nontrivial(c historyCase) bool {
	roots, err := parseModelRoots(c.Doc, c.ND)
	if err != nil {
		return false
	}
	f := historyFactsOf(c)
	interesting := f.nopGap
	depth := 0
	var rec func(n *rj.Node)
	rec = func(n *rj.Node) {
		switch n.K {
		case rj.Str:
			for _, b := range n.S {
				if b < 0x20 || b == '"' || b == '\\' {
					interesting = true
				}
			}
		case rj.Num:
			if n.NT == 'f' {
				interesting = true
			}
		case rj.Arr:
			for _, x := range n.A {
				rec(x)
			}
		case rj.Obj:
			for _, m := range n.O {
				rec(m.Val)
			}
		}
	}
	for _, r := range roots {
		rec(r)
		if d := nodeDepth(r); d > depth {
			depth = d
		}
	}
	for _, op := range c.Ops {
		if op.Kind == "SetFloat" || op.Kind == "SetString" || op.Kind == "SetStringBytes" {
			interesting = true
		}
	}
	return interesting && depth >= 2
}

func TestC10_Histories(t *testing.T) {
	mix := opMix{sets: true, delObj: true, delArr: true, setNullContainer: true, nonFinite: true, nullRoot: true}
	runRapid(t, "C10_Histories", nCases(150_000, 600_000), func(t *rapid.T) {
		maxOps := 6
		if thorough() {
			maxOps = 20
		}
		c := genHistory(t, mix, maxOps, editProfiles)
		if rapid.IntRange(0, 3).Draw(t, "noedit") == 0 {
			c.Ops = nil
		}
		c10Run(t, c)
		cl := col("C10")
		f := historyFactsOf(c)
		cls := []string{boolClass("nd", c.ND), boolClass("copy", c.Copy), fmt.Sprintf("ops:%d", bucket(len(c.Ops))), boolClass("nop-gap", f.nopGap)}
		cl.Eval(c10Nontrivial(c), historyHash(c), cls...)
		cl.Sample(func() interface{} { return historySample(c) })
	})
	col("C10").Completed("TestC10_Histories")
}

// Big documents: a NOP run that crosses the serializer's 65536-tag buffer boundary (deleting array elements around it,
// or replacing a container of more than 64K tape words by null) must survive "every serialize API reflects the edit".
func genBigGapHistory(t *rapid.T, setNull bool) historyCase {
	el := []string{"1", "null", `"a"`, "[]", "1.5"}[rapid.IntRange(0, 4).Draw(t, "el")]
	at := 65536*(1+rapid.IntRange(0, 1).Draw(t, "bk")) - 2 + rapid.IntRange(-6, 6).Draw(t, "gd")
	ln := rapid.IntRange(1, 60).Draw(t, "glen")
	if rapid.IntRange(0, 2).Draw(t, "biggap") == 0 {
		ln = rapid.IntRange(1000, 70000).Draw(t, "gbig")
	}
	n := at + ln + rapid.IntRange(1, 300).Draw(t, "after")
	var b bytes.Buffer
	if setNull {
		// [ <prefix elements> , [ ...ln elements... ] , <suffix> ] : the inner array becomes null
		b.WriteByte('[')
		for i := 0; i < at; i++ {
			b.WriteString(el)
			b.WriteByte(',')
		}
		b.WriteByte('[')
		for i := 0; i < ln; i++ {
			if i > 0 {
				b.WriteByte(',')
			}
			b.WriteString(el)
		}
		b.WriteString(`],"end"]`)
		return historyCase{Doc: b.Bytes(), Copy: rapid.Bool().Draw(t, "copy"), Ops: []editOp{{Kind: "SetNull", Path: []int{0, at}, Nav: 1}}}
	}
	b.WriteByte('[')
	for i := 0; i < n; i++ {
		if i > 0 {
			b.WriteByte(',')
		}
		b.WriteString(el)
	}
	b.WriteByte(']')
	del := make([]bool, n)
	for i := at; i < at+ln; i++ {
		del[i] = true
	}
	return historyCase{Doc: b.Bytes(), Copy: rapid.Bool().Draw(t, "copy"), Ops: []editOp{{Kind: "DelArr", Path: []int{0}, Nav: 1, UseFn: true, Del: del}}}
}

func TestC13_BigSetNull(t *testing.T) {
	runRapid(t, "C13_BigSetNull", nCases(48, 1200), func(t *rapid.T) {
		c := genBigGapHistory(t, true)
		c13Run(t, c)
		col("C13").Eval(true, historyHash(c), "big-container-to-null-across-64K-tags")
	})
	col("C13").Completed("TestC13_BigSetNull")
}

func TestC14_BigGap(t *testing.T) {
	runRapid(t, "C14_BigGap", nCases(48, 1200), func(t *rapid.T) {
		c := genBigGapHistory(t, false)
		c14Run(t, c)
		col("C14").Eval(true, historyHash(c), "deleted-run-across-64K-tags")
	})
	col("C14").Completed("TestC14_BigGap")
}
