//go:build verif

package props

import (
	"bytes"
	"encoding/json"
	"errors"
	"fmt"
	"io"
	"runtime"
	"strings"
	"sync"
	"testing"
	"time"

	simdjson "github.com/minio/simdjson-go"
	"pgregory.net/rapid"

	rj "verifharness/internal/refjson"
)

// C09: ParseNDStream delivers the same documents however the reader fragments.

type c09Case struct {
	Lines       [][]byte `json:"lines"` // valid documents (no raw LF) or blank / white-space-only lines
	CRLF        []bool   `json:"crlf"`
	FinalNL     bool     `json:"final_nl"`
	Frags       []int    `json:"frags"`    // sizes of successive Read results, cycled; 0 = everything that is left
	ResCap      int      `json:"res_cap"`  // capacity of the result channel
	Reuse       int      `json:"reuse"`    // 0 nil channel, 1 recycle every value, 2 recycle every other value, 3 foreign objects first, then every value
	Procs       int      `json:"procs"`    // GOMAXPROCS
	ErrAt       int      `json:"err_at"`   // -1: none; else the reader fails after delivering this many bytes
	ErrKind     int      `json:"err_kind"` // which error the reader fails with: 0 custom, 1 io.ErrUnexpectedEOF, 2 io.ErrClosedPipe, 3 a wrapped error
	EOFWithData bool     `json:"eof_with_data"`
	ForceOrder  bool     `json:"force_order"` // chunk k may not deliver before chunk k+1 has been parsed
	SlowConsume bool     `json:"slow_consume"`
	// OrderDec (non-empty): window-permutation mode. Every parsed chunk is held; whenever no further chunk can be
	// parsed while the oldest held chunk is kept back (the window oldest..oldest+conc is complete, or the reader is done),
	// held chunks are released one at a time in the order these decisions pick (index into the held chunks sorted by
	// sequence number, modulo their count; negative = the newest), until the oldest one has been released.
	OrderDec []int `json:"order_dec,omitempty"`
}

var errInjected = errors.New("injected reader failure")

// injectedTarget is the sentinel errors.Is must find in what the stream delivers.
func injectedTarget(kind int) error {
	switch kind % 4 {
	case 1:
		return io.ErrUnexpectedEOF
	case 2:
		return io.ErrClosedPipe
	}
	return errInjected
}

// the reader's own error: standard values that a library might be tempted to special-case are included
func injectedError(kind int) error {
	switch kind % 4 {
	case 1:
		return io.ErrUnexpectedEOF
	case 2:
		return io.ErrClosedPipe
	case 3:
		return fmt.Errorf("read tcp: connection reset: %w", errInjected)
	}
	return errInjected
}

type fragReader struct {
	data        []byte
	frags       []int
	k, pos      int
	errAt       int
	errKind     int
	eofWithData bool
	reads       int
	fragInToken bool
}

func (r *fragReader) Read(p []byte) (int, error) {
	r.reads++
	if r.errAt >= 0 && r.pos >= r.errAt {
		return 0, injectedError(r.errKind)
	}
	if r.pos >= len(r.data) {
		return 0, io.EOF
	}
	n := len(r.data) - r.pos
	if len(r.frags) > 0 {
		f := r.frags[r.k%len(r.frags)]
		r.k++
		if f > 0 && f < n {
			n = f
		}
	}
	if n > len(p) {
		n = len(p)
	}
	if r.errAt >= 0 && r.pos+n > r.errAt {
		n = r.errAt - r.pos
	}
	copy(p, r.data[r.pos:r.pos+n])
	r.pos += n
	if r.pos < len(r.data) && r.data[r.pos-1] != '\n' && r.data[r.pos] != '\n' {
		r.fragInToken = true
	}
	if r.eofWithData && r.pos >= len(r.data) {
		return n, io.EOF
	}
	return n, nil
}

// orderCtl forces chunk k to wait (after parsing, before delivering) until chunk k+1 has been parsed (pairwise mode),
// or holds every parsed chunk and releases them in a drawn order (window-permutation mode).
type orderCtl struct {
	mu         sync.Mutex
	cond       *sync.Cond
	parsed     map[int]bool
	queued     int
	readerDone bool
	force      bool
	chunks     int
	// window-permutation mode
	dec        []int
	decAt      int
	conc       int
	released   map[int]bool
	oldest     int // smallest sequence number not yet released
	outOfOrder int // releases of a chunk other than the oldest held one
}

func newOrderCtl(force bool) *orderCtl {
	o := &orderCtl{parsed: map[int]bool{}, force: force, released: map[int]bool{}}
	o.cond = sync.NewCond(&o.mu)
	return o
}

// step (window mode, lock held): release held chunks while no further "parsed" event can arrive.
// ParseNDStream's forwarder holds the channel of the oldest undelivered chunk and its queue has room for conc more, so
// chunks oldest..oldest+conc can all be parsed while the oldest is kept back, and no later one can even be queued.
func (o *orderCtl) step() {
	for {
		hi := o.oldest + o.conc // last chunk that can exist while `oldest` is undelivered
		complete := false
		if o.queued > hi {
			complete = true
			for s := o.oldest; s <= hi; s++ {
				if !o.parsed[s] {
					complete = false
				}
			}
		} else if o.readerDone {
			complete = true
			for s := o.oldest; s < o.queued; s++ {
				if !o.parsed[s] {
					complete = false
				}
			}
		}
		if !complete {
			return
		}
		var held []int
		for s := o.oldest; s < o.queued && s <= hi; s++ {
			if o.parsed[s] && !o.released[s] {
				held = append(held, s)
			}
		}
		if len(held) == 0 {
			return
		}
		d := o.dec[o.decAt%len(o.dec)]
		o.decAt++
		pick := len(held) - 1
		if d >= 0 {
			pick = d % len(held)
		}
		s := held[pick]
		if s != o.oldest {
			o.outOfOrder++
		}
		o.released[s] = true
		for o.released[o.oldest] {
			o.oldest++
		}
		o.cond.Broadcast()
	}
}

func (o *orderCtl) hook(ev string, seq int) {
	o.mu.Lock()
	defer o.mu.Unlock()
	switch ev {
	case "queued":
		if seq+1 > o.queued {
			o.queued = seq + 1
		}
		o.chunks++
		o.cond.Broadcast()
		if len(o.dec) > 0 {
			o.step()
		}
	case "reader-done":
		o.readerDone = true
		o.cond.Broadcast()
		if len(o.dec) > 0 {
			o.step()
		}
	case "parsed":
		o.parsed[seq] = true
		o.cond.Broadcast()
		if len(o.dec) > 0 {
			o.step()
			for !o.released[seq] {
				o.cond.Wait()
			}
			return
		}
		if o.force {
			for !(o.parsed[seq+1] || (o.readerDone && o.queued <= seq+1)) {
				o.cond.Wait()
			}
		}
	}
}

func c09Check(c c09Case) error {
	crumb("C09", "stream", c)
	defer clearCrumb()
	var data []byte
	var docs []*rj.Node
	blankOnlyPossible := false
	for i, l := range c.Lines {
		data = append(data, l...)
		last := i == len(c.Lines)-1
		if !last || c.FinalNL {
			if i < len(c.CRLF) && c.CRLF[i] {
				data = append(data, '\r')
			}
			data = append(data, '\n')
		}
		if isBlankLine(l) {
			blankOnlyPossible = true
			continue
		}
		m, err := modelOf(l)
		if err != nil {
			return err
		}
		docs = append(docs, m)
	}
	_ = blankOnlyPossible
	if len(docs) == 0 {
		return bugf("stream without documents is outside the generated domain")
	}
	procs := c.Procs
	if procs < 1 {
		procs = 1
	}
	oldProcs := runtime.GOMAXPROCS(procs)
	defer runtime.GOMAXPROCS(oldProcs)
	base := goroutineBaseline()
	stop := watchdog(hangLimit(), "C09 stream")
	defer stop()

	oc := newOrderCtl(c.ForceOrder)
	oc.dec, oc.conc = c.OrderDec, (procs+1)/2
	simdjson.VerifSetStreamHook(oc.hook)
	defer simdjson.VerifSetStreamHook(nil)

	res := make(chan simdjson.Stream, c.ResCap)
	var reuse chan *simdjson.ParsedJson
	if c.Reuse > 0 {
		reuse = make(chan *simdjson.ParsedJson, 8)
	}
	if c.Reuse == 3 {
		// objects that did not come out of this stream: a zero value, a no-copy parse result (its Message is somebody
		// else's input buffer), a deserialized tape; afterwards every delivered value is recycled
		reuse <- &simdjson.ParsedJson{}
		if p1, err := simdjson.Parse([]byte(`{"foreign":["object","x\n",1.5,{"k":null}],"long":"`+strings.Repeat("f", 300)+`"}`), nil, simdjson.WithCopyStrings(false)); err == nil {
			reuse <- p1
		}
		if p2, err := simdjson.Parse([]byte(`[1,2,3,"four",[5]]`), nil); err == nil {
			fs := simdjson.NewSerializer()
			if p3, err := fs.Deserialize(fs.Serialize(nil, *p2), nil); err == nil {
				reuse <- p3
			}
		}
	}
	rd := &fragReader{data: data, frags: c.Frags, errAt: c.ErrAt, eofWithData: c.EOFWithData, errKind: c.ErrKind}
	if c.Reuse > 0 {
		simdjson.ParseNDStream(rd, res, reuse)
	} else {
		simdjson.ParseNDStream(rd, res, nil)
	}
	var gotAll []byte
	var errs []error
	nvals := 0
	afterErr := 0
	for v := range res {
		if c.SlowConsume {
			time.Sleep(200 * time.Microsecond)
		}
		if (v.Error == nil) == (v.Value == nil) {
			return fmt.Errorf("stream item has Value nil=%v and Error=%v; exactly one must be set", v.Value == nil, v.Error)
		}
		if v.Error != nil {
			errs = append(errs, v.Error)
			continue
		}
		if len(errs) > 0 {
			afterErr++
		}
		nvals++
		cn, err := walkW1(v.Value)
		if err != nil {
			return fmt.Errorf("value %d is not traversable: %v", nvals, err)
		}
		cn2, err := walkW4(v.Value)
		if err != nil || !bytes.Equal(cn, cn2) {
			return fmt.Errorf("value %d: ForEach walk disagrees: %v", nvals, err)
		}
		if len(gotAll) > 0 {
			gotAll = append(gotAll, '\n')
		}
		gotAll = append(gotAll, cn...)
		if c.Reuse == 1 || c.Reuse == 3 || (c.Reuse == 2 && nvals%2 == 0) {
			select {
			case reuse <- v.Value:
			default:
			}
		}
	}
	// channel closed
	wantAll := modelCanonAll(docs, canonOpts{})
	describe := func() string {
		return fmt.Sprintf("stream %q, fragments %v, %d reads, %d chunks, procs %d, res cap %d, reuse %d, force order %v, release decisions %v", clip(data), clipInts(c.Frags), rd.reads, oc.chunks, procs, c.ResCap, c.Reuse, c.ForceOrder, clipInts(c.OrderDec))
	}
	if afterErr > 0 {
		return fmt.Errorf("%d values were delivered after an error item (%s)", afterErr, describe())
	}
	if c.ErrAt < 0 {
		if len(errs) != 1 || errs[0] != io.EOF {
			return fmt.Errorf("want exactly one error item io.EOF before close, got %v (%s)", errs, describe())
		}
		if !bytes.Equal(gotAll, wantAll) {
			return fmt.Errorf("the delivered documents differ from the stream's: %s (%s)", diffCanon(wantAll, gotAll), describe())
		}
	} else {
		if len(errs) != 1 || !errors.Is(errs[0], injectedTarget(c.ErrKind)) {
			return fmt.Errorf("reader failed with the injected error, but the stream delivered errors %v (%s)", errs, describe())
		}
		isPrefix := false
		for k := 0; k <= len(docs); k++ {
			if bytes.Equal(gotAll, modelCanonAll(docs[:k], canonOpts{})) {
				isPrefix = true
				break
			}
		}
		if !isPrefix {
			return fmt.Errorf("delivered documents are not a prefix of the stream's documents: %s (%s)", diffCanon(wantAll, gotAll), describe())
		}
	}
	if err := waitGoroutines(base); err != nil {
		return fmt.Errorf("after the result channel closed: %v", err)
	}
	lastC09 = c09Facts{chunks: oc.chunks, reads: rd.reads, fragInToken: rd.fragInToken, outOfOrder: oc.outOfOrder}
	return nil
}

type c09Facts struct {
	chunks, reads int
	fragInToken   bool
	outOfOrder    int
}

var lastC09 c09Facts

func buildStream(lines [][]byte, crlf []bool, finalNL bool) []byte {
	var data []byte
	for i, l := range lines {
		data = append(data, l...)
		if i < len(lines)-1 || finalNL {
			if i < len(crlf) && crlf[i] {
				data = append(data, '\r')
			}
			data = append(data, '\n')
		}
	}
	return data
}

func clipInts(v []int) []int {
	if len(v) > 12 {
		return v[:12]
	}
	return v
}

var c09Run = register("C09", "stream", c09Check)

func genStreamLines(t *rapid.T, maxLines int) (lines [][]byte, crlf []bool) {
	n := rapid.IntRange(1, maxLines).Draw(t, "lines")
	hasDoc := false
	for i := 0; i < n; i++ {
		switch rapid.IntRange(0, 9).Draw(t, "lk") {
		case 0:
			lines = append(lines, []byte{})
		case 1:
			lines = append(lines, []byte([]string{" ", "\t", "  ", " \t "}[rapid.IntRange(0, 3).Draw(t, "ws")]))
		case 2, 3:
			lines = append(lines, []byte(ndLineTemplates[rapid.IntRange(0, 9).Draw(t, "tmpl")]))
			hasDoc = true
		default:
			text, _ := render(genDoc(t, pickProfile(t)), layout{Mode: rapid.IntRange(0, 1).Draw(t, "ws"), Seed: rapid.Uint64().Draw(t, "wss"), NoLF: true})
			lines = append(lines, text)
			hasDoc = true
		}
		crlf = append(crlf, rapid.IntRange(0, 4).Draw(t, "crlf") == 0)
	}
	if !hasDoc {
		lines = append(lines, []byte(`{"only":"document"}`))
		crlf = append(crlf, false)
	}
	if rapid.IntRange(0, 11).Draw(t, "longline") == 0 {
		// one very long line (longer than any small internal buffer a reader layer might use)
		n := rapid.IntRange(70_000, 200_000).Draw(t, "longlen")
		at := rapid.IntRange(0, len(lines)).Draw(t, "longat")
		long := []byte(`{"long":"` + strings.Repeat("L", n) + `","n":[1,2,3]}`)
		lines = append(lines[:at], append([][]byte{long}, lines[at:]...)...)
		crlf = append(crlf[:at], append([]bool{false}, crlf[at:]...)...)
	}
	return
}

// genOrderDec draws the release decisions of the window-permutation mode (nil: mode off).
func genOrderDec(t *rapid.T, oneIn int) []int {
	if rapid.IntRange(0, oneIn-1).Draw(t, "permute") != 0 {
		return nil
	}
	switch rapid.IntRange(0, 3).Draw(t, "permkind") {
	case 0:
		return []int{-1} // always the newest: every window is delivered in reverse completion order
	case 1:
		return []int{-1, 0} // newest, oldest, newest, ...
	default:
		return rapid.SliceOfN(rapid.IntRange(-1, 9), 1, 10).Draw(t, "orderdec")
	}
}

func genFrags(t *rapid.T) []int {
	switch rapid.IntRange(0, 5).Draw(t, "fragkind") {
	case 0:
		return []int{0} // one giant read
	case 1:
		return []int{1}
	case 2:
		return []int{rapid.IntRange(1, 64).Draw(t, "fixed")}
	case 3:
		return rapid.SliceOfN(rapid.IntRange(1, 64), 1, 12).Draw(t, "frags")
	case 4: // one big then tiny ones
		return []int{rapid.IntRange(100, 4000).Draw(t, "big"), 3, 1, 7, 2}
	default:
		return rapid.SliceOfN(rapid.IntRange(1, 400), 1, 6).Draw(t, "frags")
	}
}

func c09Eval(t fataler, c c09Case, kind string) {
	c09Run(t, c)
	f := lastC09
	blankFrag := false
	for _, l := range c.Lines {
		if isBlankLine(l) {
			blankFrag = true
		}
	}
	b, _ := json.Marshal(c)
	cl := col("C09")
	nt := f.chunks >= 2 && (f.fragInToken || blankFrag)
	cl.Eval(nt, evidHash(b), "kind:"+kind, fmt.Sprintf("procs:%d", c.Procs), fmt.Sprintf("rescap:%d", c.ResCap), fmt.Sprintf("reuse:%d", c.Reuse),
		boolClass("force-order", c.ForceOrder), boolClass("window-permutation", len(c.OrderDec) > 0), fmt.Sprintf("out-of-order-releases:%d", bucket(f.outOfOrder)), boolClass("reader-error", c.ErrAt >= 0), fmt.Sprintf("chunks:%d", bucket(f.chunks)), boolClass("fragment-in-token", f.fragInToken))
	cl.Sample(func() interface{} {
		return map[string]interface{}{"kind": kind, "lines": len(c.Lines), "frags": clipInts(c.Frags), "procs": c.Procs, "res_cap": c.ResCap, "reuse": c.Reuse, "err_at": c.ErrAt, "force_order": c.ForceOrder, "order_dec": clipInts(c.OrderDec), "out_of_order_releases": f.outOfOrder, "chunks": f.chunks}
	})
}

func TestC09_Streams(t *testing.T) {
	runRapid(t, "C09_Streams", nCases(12_000, 250_000), func(t *rapid.T) {
		lines, crlf := genStreamLines(t, 14)
		c := c09Case{Lines: lines, CRLF: crlf, FinalNL: rapid.Bool().Draw(t, "finalnl"), Frags: genFrags(t),
			ResCap: []int{0, 1, 10}[rapid.IntRange(0, 2).Draw(t, "rescap")], Reuse: rapid.IntRange(0, 3).Draw(t, "reuse"),
			Procs: []int{1, 2, 16, 4, 6}[rapid.IntRange(0, 4).Draw(t, "procs")], ErrAt: -1,
			EOFWithData: rapid.IntRange(0, 3).Draw(t, "eofdata") == 0, ForceOrder: rapid.IntRange(0, 2).Draw(t, "force") == 0,
			SlowConsume: rapid.IntRange(0, 5).Draw(t, "slow") == 0}
		if c.OrderDec = genOrderDec(t, 3); c.OrderDec != nil {
			c.ForceOrder = false
		}
		c09Eval(t, c, "fragmented")
	})
	col("C09").Completed("TestC09_Streams")
}

// TestC09_Permuted: streams of many short lines delivered a line or a few bytes at a time (many chunks), always in
// window-permutation mode, so that whole windows of concurrently parsed chunks complete in drawn orders.
func TestC09_Permuted(t *testing.T) {
	runRapid(t, "C09_Permuted", nCases(2_500, 50_000), func(t *rapid.T) {
		n := rapid.IntRange(12, 70).Draw(t, "lines")
		var lines [][]byte
		var crlf []bool
		for i := 0; i < n; i++ {
			switch rapid.IntRange(0, 7).Draw(t, "lk") {
			case 0:
				lines = append(lines, []byte{})
			case 1, 2:
				lines = append(lines, []byte(ndLineTemplates[rapid.IntRange(0, 9).Draw(t, "tmpl")]))
			default:
				lines = append(lines, []byte(fmt.Sprintf(`{"i":%d,"s":"line %d","a":[%d,true,null]}`, i, i, i*7)))
			}
			crlf = append(crlf, rapid.IntRange(0, 5).Draw(t, "crlf") == 0)
		}
		lines = append(lines, []byte(`{"last":"document"}`))
		crlf = append(crlf, false)
		var frags []int
		switch rapid.IntRange(0, 2).Draw(t, "fragkind") {
		case 0: // exactly one line per read (cycled over the stream's own line lengths)
			for i, l := range lines {
				f := len(l) + 1
				if crlf[i] {
					f++
				}
				frags = append(frags, f)
			}
		case 1:
			frags = []int{rapid.IntRange(1, 40).Draw(t, "fixed")}
		default:
			frags = rapid.SliceOfN(rapid.IntRange(1, 90), 1, 8).Draw(t, "frags")
		}
		dec := genOrderDec(t, 1)
		c := c09Case{Lines: lines, CRLF: crlf, FinalNL: rapid.Bool().Draw(t, "finalnl"), Frags: frags,
			ResCap: []int{0, 1, 10}[rapid.IntRange(0, 2).Draw(t, "rescap")], Reuse: rapid.IntRange(0, 3).Draw(t, "reuse"),
			Procs: []int{2, 4, 6, 16, 16}[rapid.IntRange(0, 4).Draw(t, "procs")], ErrAt: -1, OrderDec: dec,
			EOFWithData: rapid.IntRange(0, 3).Draw(t, "eofdata") == 0, SlowConsume: rapid.IntRange(0, 7).Draw(t, "slow") == 0}
		if rapid.IntRange(0, 5).Draw(t, "witherr") == 0 {
			c.ErrAt = rapid.IntRange(0, len(buildStream(lines, crlf, c.FinalNL))).Draw(t, "errat")
			c.ErrKind = rapid.IntRange(0, 3).Draw(t, "errkind")
			c.EOFWithData = false // a reader that hands out its last bytes together with io.EOF never gets to fail
		}
		c09Eval(t, c, "many-chunks-permuted")
	})
	col("C09").Completed("TestC09_Permuted")
}

// TestC09_ReaderErrors: reader error at every byte offset of short streams, sampled offsets for longer ones.
func TestC09_ReaderErrors(t *testing.T) {
	runRapid(t, "C09_ReaderErrors", nCases(600, 12_000), func(t *rapid.T) {
		lines, crlf := genStreamLines(t, 6)
		base := c09Case{Lines: lines, CRLF: crlf, FinalNL: rapid.Bool().Draw(t, "finalnl"), Frags: genFrags(t),
			ResCap: []int{0, 1, 10}[rapid.IntRange(0, 2).Draw(t, "rescap")], Reuse: rapid.IntRange(0, 3).Draw(t, "reuse"),
			Procs: []int{1, 2, 16, 4, 6}[rapid.IntRange(0, 4).Draw(t, "procs")], ForceOrder: rapid.IntRange(0, 3).Draw(t, "force") == 0}
		if base.OrderDec = genOrderDec(t, 4); base.OrderDec != nil {
			base.ForceOrder = false
		}
		total := len(buildStream(lines, crlf, base.FinalNL))
		if total <= 300 {
			for at := 0; at <= total; at++ {
				c := base
				c.ErrAt = at
				c.ErrKind = at % 4
				c09Eval(t, c, "reader-error-every-offset")
			}
		} else {
			for k := 0; k < 12; k++ {
				c := base
				c.ErrAt = rapid.IntRange(0, total).Draw(t, "errat")
				c.ErrKind = rapid.IntRange(0, 3).Draw(t, "errkind")
				c09Eval(t, c, "reader-error-sampled")
			}
		}
	})
	col("C09").Completed("TestC09_ReaderErrors")
}

// TestC09_Big: streams larger than the 10 MiB chunk buffer, delivered by reads that fill it completely, so that a chunk
// boundary falls inside a line and the line has to be completed from the next read.
func TestC09_Big(t *testing.T) {
	n := 1
	if thorough() {
		n = 3
	}
	for k := 0; k < n; k++ {
		if !thorough() && envShard != 0 {
			break
		}
		r := newPRNG(fmt.Sprintf("C09_Big_%d", k))
		var lines [][]byte
		total := 0
		target := 11<<20 + r.intn(2<<20)
		i := 0
		for total < target {
			var l []byte
			switch r.intn(4) {
			case 0:
				l = []byte(`{"id":` + fmt.Sprint(i) + `,"payload":"` + string(bytes.Repeat([]byte("p"), 50+r.intn(3000))) + `"}`)
			case 1:
				l = []byte(`[` + fmt.Sprint(i) + `,"line\n` + fmt.Sprint(r.intn(1000)) + `",{"k":[1,2,3]}]`)
			case 2:
				l = []byte{}
			default:
				l = []byte(`{"n":` + fmt.Sprint(r.intn(1000000)) + `.5}`)
			}
			lines = append(lines, l)
			total += len(l) + 1
			i++
		}
		c := c09Case{Lines: lines, FinalNL: k%2 == 0, Frags: []int{0}, ResCap: 1, Reuse: k % 3, Procs: 4, ErrAt: -1, ForceOrder: k%2 == 1}
		if k == 2 {
			c.Frags = []int{3 << 20, 1, 9 << 20, 17}
		}
		c09Eval(t, c, "bigger-than-chunk-buffer")
	}
	col("C09").Completed("TestC09_Big")
}
