//go:build verif

package props

import (
	"bytes"
	"encoding/json"
	"fmt"
	"hash/fnv"
	"runtime"
	"strconv"
	"strings"
	"testing"
	"time"

	simdjson "github.com/minio/simdjson-go"
	"pgregory.net/rapid"

	rj "verifharness/internal/refjson"
)

// C07: the concurrent two-stage pipeline is schedule-independent.
//
// The harness owns the interleaving: with the verif hooks the producer stops at the gates acquire(n), send(n) and
// terminator-send, the consumer at the gate "done with my buffer, about to receive". The controller keeps a model of the
// bounded channel and decides only when no role is running, so a history is a deterministic function of
// (document, decision list). Invariants I1..I5 are evaluated on the hand-off history.

type c07Case struct {
	Kind      int    `json:"kind"`     // element template
	N         int    `json:"n"`        // number of elements
	ErrKind   int    `json:"err_kind"` // 0 none; 1..: injected error kinds
	ErrPos    int    `json:"err_pos"`  // per mille position of the injected error
	Strategy  int    `json:"strategy"` // 0 producer-greedy, 1 consumer-greedy, 2 bursts, 3 decision list
	K1        int    `json:"k1"`
	K2        int    `json:"k2"`
	Decisions []byte `json:"decisions"`
	Copy      bool   `json:"copy"`
	Procs     int    `json:"procs"` // GOMAXPROCS during the run (0: 4)
	ND        bool   `json:"nd"`    // ParseND: the document is followed by a second line
	Reuse     bool   `json:"reuse"` // parse into an object that was used before
}

var c07Templates = []string{`1`, `"s"`, `[]`, `{"a":1}`, `"a longer string value with \n escape"`, `[1,2,[3,{"k":null}]]`, `true`, `12345.678e-3`,
	// one element that is a multi-megabyte string (kind 8), and short elements used for documents beyond 1 MiB (kind 9)
	`"` + strings.Repeat("long string ", 220000) + `"`, `{"id":12345,"v":[true,null]}`}

func (c c07Case) doc() []byte {
	d := c.doc1()
	if c.ND {
		d = append(append([]byte(nil), d...), []byte("\n{\"second\":[\"line\",2]}\r\n")...)
	}
	return d
}

func (c c07Case) doc1() []byte {
	var b bytes.Buffer
	tmpl := c07Templates[c.Kind%len(c07Templates)]
	b.Grow(c.N*(len(tmpl)+1) + 2)
	b.WriteByte('[')
	for i := 0; i < c.N; i++ {
		if i > 0 {
			b.WriteByte(',')
		}
		b.WriteString(tmpl)
	}
	b.WriteByte(']')
	out := b.Bytes()
	if c.ErrKind == 7 {
		// exactly m full index buffers of structurals, then a tail without any structural character: stage 1 meets an
		// iteration that finds nothing (its early error exit)
		m := 1 + c.N%20
		return []byte("[" + strings.Repeat("1,", 704*m-1) + strings.Repeat("1", 9001))
	}
	if c.ErrKind == 0 || len(out) < 10 {
		return out
	}
	pos := len(out) * c.ErrPos / 1000
	if pos < 1 {
		pos = 1
	}
	if pos > len(out)-2 {
		pos = len(out) - 2
	}
	switch c.ErrKind {
	case 1: // stage 2: a structural goes missing / becomes another one
		for pos < len(out)-2 && out[pos] != ',' {
			pos++
		}
		out[pos] = ':'
	case 2: // stage 1: raw control character inside a string if there is one, else an unterminated string
		if i := bytes.IndexByte(out[pos:], '"'); i >= 0 && pos+i+1 < len(out)-1 {
			out[pos+i+1] = 0x01
		} else {
			out = append(out[:pos], append([]byte(`"`), out[pos:]...)...)
		}
	case 3: // truncated document (stage 1: last structural is not a closing bracket)
		out = out[:pos]
	case 4: // bad atom (stage 2)
		for pos < len(out)-2 && out[pos] != ',' {
			pos++
		}
		out = append(out[:pos+1], append([]byte(`nul,`), out[pos+1:]...)...)
	case 5: // unbalanced: extra closing bracket at the end
		out = append(out, ']')
	case 6: // unterminated string at the very end
		out = append(out[:len(out)-1], []byte(`,"x]`)...)
	}
	return out
}

type rstate int

const (
	sRunning rstate = iota
	sAtGate
	sBlocked
	sFree
	sExited
)

const (
	roleP = 0
	roleC = 1
)

type evMsg struct {
	e     simdjson.VerifPipeEvent
	hash  uint64
	reply chan struct{}
}

type sched struct {
	events  chan evMsg
	st      [2]rstate
	pending [2]*evMsg
	q       int
	chanCap int
	slots   int

	sentHash []uint64
	sentLen  []int
	recvd    int
	holding  bool // the consumer is between "received buffer" and "done with it"

	// decisions
	c        c07Case
	decIdx   int
	burstWho int
	burstN   int

	// observations
	err            error
	decisions      int
	maxQ           int
	fullRingLag    bool // producer at acquire while q == cap
	consBlockedEmp bool // consumer blocked on an empty channel
	buffers        int
	history        []string
}

func hashU32(b []uint32) uint64 {
	h := fnv.New64a()
	var t [4]byte
	for _, v := range b {
		t[0], t[1], t[2], t[3] = byte(v), byte(v>>8), byte(v>>16), byte(v>>24)
		h.Write(t[:])
	}
	return h.Sum64()
}

func (s *sched) hook(e simdjson.VerifPipeEvent) {
	m := evMsg{e: e, reply: make(chan struct{})}
	if e.Buf != nil {
		m.hash = hashU32(e.Buf)
	}
	s.events <- m
	<-m.reply
}

func (s *sched) fail(format string, a ...interface{}) {
	if s.err == nil {
		s.err = fmt.Errorf(format, a...)
	}
}

func (s *sched) log(format string, a ...interface{}) {
	if len(s.history) < 400 {
		s.history = append(s.history, fmt.Sprintf(format, a...))
	}
}

func roleOf(ev int) int {
	switch ev {
	case simdjson.VerifEvAcquire, simdjson.VerifEvSend, simdjson.VerifEvSent, simdjson.VerifEvTermSend, simdjson.VerifEvTermSent:
		return roleP
	}
	return roleC
}

// handle processes one hook event. Gate events park the role; the others update the model and resume at once.
func (s *sched) handle(m evMsg) {
	e := m.e
	if s.chanCap == 0 {
		s.chanCap = e.ChanCap
	}
	r := roleOf(e.Ev)
	gate := false
	switch e.Ev {
	case simdjson.VerifEvAcquire:
		gate = true
		// I3, judged when the producer arrives: the acquire gate is artificial, without it the producer would write into
		// the slot right now. The slot must not hold a buffer the consumer has not finished (queued, or being parsed).
		if s.st[roleC] != sFree && s.st[roleC] != sExited {
			done := s.recvd
			if s.holding {
				done--
			}
			if int(e.N)-s.slots >= done {
				s.fail("I3: producer is about to overwrite ring slot %d with buffer %d, but buffer %d is not finished: the consumer has finished %d buffers (received %d, parsing one: %v), %d queued, channel capacity %d, ring slots %d",
					int(e.N)%s.slots, e.N, int(e.N)-s.slots, done, s.recvd, s.holding, s.q, s.chanCap, s.slots)
			}
		}
	case simdjson.VerifEvSend:
		gate = true
		if int(e.N) != len(s.sentHash) {
			s.fail("I1: producer sends buffer %d, expected buffer %d", e.N, len(s.sentHash))
		}
		s.sentHash = append(s.sentHash, m.hash)
		s.sentLen = append(s.sentLen, e.Length)
		s.buffers++
	case simdjson.VerifEvTermSend:
		gate = true
	case simdjson.VerifEvSent:
		s.st[roleP] = sRunning
	case simdjson.VerifEvTermSent:
		s.st[roleP] = sExited
		s.log("P exit")
	case simdjson.VerifEvRecvGate:
		gate = true
		s.holding = false
		// the consumer is done with the buffer it holds: its content must still be what was sent (I2)
		if s.recvd > 0 && e.Buf != nil && s.st[roleC] != sFree {
			k := s.recvd - 1
			if e.Length != s.sentLen[k] || m.hash != s.sentHash[k] {
				s.fail("I2: buffer %d (ring slot %d) changed while the consumer was using it: %d indexes hash %x at send, %d indexes hash %x when the consumer finished with it",
					k, k%s.slots, s.sentLen[k], s.sentHash[k], e.Length, m.hash)
			}
		}
	case simdjson.VerifEvReceived:
		s.st[roleC] = sRunning
		if e.Index == -1 && e.Buf == nil && e.Length == 0 {
			s.st[roleC] = sExited
			s.log("C got terminator")
			if s.recvd != len(s.sentHash) {
				s.fail("I1: consumer received the terminator after %d buffers, %d were sent", s.recvd, len(s.sentHash))
			}
		} else {
			k := s.recvd
			if k >= len(s.sentHash) {
				s.fail("I1: consumer received buffer number %d but only %d were sent", k, len(s.sentHash))
			} else if e.Length != s.sentLen[k] || m.hash != s.sentHash[k] {
				s.fail("I1/I2: %d-th received buffer (ring slot %d) is not the %d-th sent buffer: %d indexes hash %x at send, %d indexes hash %x at receive (overwritten while queued, lost or reordered)",
					k, k%s.slots, k, s.sentLen[k], s.sentHash[k], e.Length, m.hash)
			}
			s.recvd++
			s.holding = true
		}
	case simdjson.VerifEvDrainStart:
		s.st[roleC] = sFree
		s.log("C drains")
	case simdjson.VerifEvDrainReceived:
		if e.Index == -1 {
			s.st[roleC] = sExited
			s.log("C drained terminator")
		}
	}
	if gate {
		s.st[r] = sAtGate
		mm := m
		s.pending[r] = &mm
		return
	}
	close(m.reply)
}

func (s *sched) release(r int) {
	m := s.pending[r]
	s.pending[r] = nil
	e := m.e
	switch e.Ev {
	case simdjson.VerifEvAcquire:
		// I3: the slot about to be written must not belong to a buffer the consumer has not finished
		cons := s.st[roleC]
		if cons == sAtGate || cons == sBlocked {
			done := s.recvd // at its gate / blocked in receive the consumer has finished everything it received
			if int(e.N)-s.slots >= done {
				s.fail("I3: producer acquires buffer %d (ring slot %d) but the consumer has finished only %d buffers: slot still in use (queued %d, channel capacity %d, ring slots %d)",
					e.N, int(e.N)%s.slots, done, s.q, s.chanCap, s.slots)
			}
			if s.q == s.chanCap {
				s.fullRingLag = true
			}
		}
		s.st[roleP] = sRunning
		s.log("P acquire %d (q=%d)", e.N, s.q)
	case simdjson.VerifEvSend, simdjson.VerifEvTermSend:
		switch {
		case s.st[roleC] == sBlocked:
			s.st[roleC] = sRunning
			s.st[roleP] = sRunning
		case s.st[roleC] == sFree || s.st[roleC] == sExited:
			s.st[roleP] = sRunning
		case s.q < s.chanCap:
			s.q++
			s.st[roleP] = sRunning
		default:
			s.st[roleP] = sBlocked
		}
		if s.q > s.maxQ {
			s.maxQ = s.q
		}
		s.log("P send %d (q=%d, P %v)", e.N, s.q, s.st[roleP])
	case simdjson.VerifEvRecvGate:
		if s.q > 0 {
			s.q--
			s.st[roleC] = sRunning
			if s.st[roleP] == sBlocked {
				s.q++
				s.st[roleP] = sRunning
			}
		} else {
			s.st[roleC] = sBlocked
			s.consBlockedEmp = true
		}
		s.log("C recv (q=%d, C %v)", s.q, s.st[roleC])
	}
	close(m.reply)
}

// choose picks the role to release among those at a gate.
func (s *sched) choose() int {
	pe, ce := s.st[roleP] == sAtGate, s.st[roleC] == sAtGate
	if pe && !ce {
		return roleP
	}
	if ce && !pe {
		return roleC
	}
	s.decisions++
	switch s.c.Strategy % 4 {
	case 0:
		return roleP
	case 1:
		return roleC
	case 2:
		if s.burstN <= 0 {
			s.burstWho = 1 - s.burstWho
			if s.burstWho == roleP {
				s.burstN = 1 + s.c.K1%40
			} else {
				s.burstN = 1 + s.c.K2%40
			}
		}
		s.burstN--
		return s.burstWho
	default:
		if len(s.c.Decisions) == 0 {
			return roleP
		}
		d := s.c.Decisions[s.decIdx%len(s.c.Decisions)]
		s.decIdx++
		// each byte gives a run: low bit = who, upper bits = run length handled by repeating
		return int(d & 1)
	}
}

func anyIs(st [2]rstate, x rstate) bool { return st[0] == x || st[1] == x }

// run drives one Parse under the controller.
func (s *sched) run(doc []byte, reuse *simdjson.ParsedJson, copyStrings bool) (pj *simdjson.ParsedJson, perr error) {
	done := make(chan struct{})
	simdjson.VerifSetPipeHook(s.hook)
	go func() {
		defer close(done)
		if s.c.ND {
			pj, perr = simdjson.ParseND(doc, reuse, simdjson.WithCopyStrings(copyStrings))
		} else {
			pj, perr = simdjson.Parse(doc, reuse, simdjson.WithCopyStrings(copyStrings))
		}
	}()
	finished := false
	for !finished {
		// 1. while somebody runs on its own, wait for the next event
		waiting := anyIs(s.st, sRunning) || s.st[roleC] == sFree && s.st[roleP] != sAtGate
		if s.st[roleP] == sExited && (s.st[roleC] == sExited || s.st[roleC] == sFree) {
			waiting = true // only Parse's return is outstanding (a free consumer finishes by itself)
		}
		if waiting {
			select {
			case m := <-s.events:
				s.handle(m)
			case <-done:
				finished = true
			}
			continue
		}
		// 2. nobody runs: release a role at a gate, or report a deadlock
		if !anyIs(s.st, sAtGate) {
			s.fail("I4: deadlock: producer %s, consumer %s, %d queued of capacity %d, %d buffers sent, %d received\nhistory tail: %v",
				stName(s.st[roleP]), stName(s.st[roleC]), s.q, s.chanCap, len(s.sentHash), s.recvd, tail(s.history, 12))
			// let everything go so that the process can continue
			simdjson.VerifSetPipeHook(nil)
			for r := 0; r < 2; r++ {
				if s.pending[r] != nil {
					close(s.pending[r].reply)
					s.pending[r] = nil
				}
			}
			go func() {
				for m := range s.events {
					close(m.reply)
				}
			}()
			select {
			case <-done:
			case <-time.After(5 * time.Second):
			}
			return nil, fmt.Errorf("deadlock")
		}
		s.release(s.choose())
	}
	simdjson.VerifSetPipeHook(nil)
	// late events cannot exist: Parse has returned, both stages are done
	return pj, perr
}

func stName(x rstate) string {
	return [...]string{"running", "at-gate", "blocked", "free(draining)", "exited"}[x]
}

func tail(h []string, n int) []string {
	if len(h) > n {
		return h[len(h)-n:]
	}
	return h
}

type c07Facts struct {
	buffers, decisions, maxQ   int
	fullRingLag, consBlockedEm bool
	outcome                    string
}

var lastC07 c07Facts

func c07Check(c c07Case) error {
	doc := c.doc()
	if len(bytes.TrimSpace(doc)) <= 8<<10 {
		return bugf("C07 document must be larger than 8 KiB (got %d)", len(doc))
	}
	crumb("C07", "schedule", c)
	defer clearCrumb()
	stop := watchdog(hangLimit(), "C07 case")
	defer stop()
	procs := c.Procs
	if procs < 1 {
		procs = 4
	}
	oldProcs := runtime.GOMAXPROCS(procs)
	defer runtime.GOMAXPROCS(oldProcs)

	verdict, model := rj.Classify(doc)
	var ndDocs []*rj.Node
	if c.ND {
		ok, docs, judged, why := ndExpectation(doc)
		if !judged {
			return bugf("C07 ND document not judged: %s", why)
		}
		ndDocs = docs
		verdict = rj.MustReject
		if ok {
			verdict = rj.MustAccept
		}
	}
	if verdict == rj.Either {
		return bugf("C07 generator produced an EITHER-class document")
	}
	var reuse *simdjson.ParsedJson
	if c.Reuse {
		var err error
		reuse, err = simdjson.Parse([]byte(`{"earlier":["content",1,2,3]}`), nil)
		if err != nil {
			return bugf("%v", err)
		}
	}
	s := &sched{events: make(chan evMsg), slots: simdjson.VerifIndexSlots, c: c, burstWho: roleC}
	pj, perr := s.run(append([]byte(nil), doc...), reuse, c.Copy)
	describe := func() string {
		return fmt.Sprintf("document: %d bytes, template %q x %d, error kind %d at %d/1000; strategy %d (k1=%d k2=%d, %d decisions taken); %d buffers, ring %d slots, channel capacity %d, max queued %d",
			len(doc), c07Templates[c.Kind%len(c07Templates)], c.N, c.ErrKind, c.ErrPos, c.Strategy%4, c.K1, c.K2, s.decisions, s.buffers, s.slots, s.chanCap, s.maxQ)
	}
	if s.err != nil {
		return fmt.Errorf("%v\n%s", s.err, describe())
	}
	// I4: both stages have exited
	if s.st[roleP] != sExited {
		return fmt.Errorf("I4: Parse returned but the producer never sent its terminator (state %s)\n%s", stName(s.st[roleP]), describe())
	}
	if s.st[roleC] != sExited {
		return fmt.Errorf("I4: Parse returned but the consumer never saw the terminator (state %s)\n%s", stName(s.st[roleC]), describe())
	}
	// I5: the outcome is what the content dictates
	if (perr == nil) != (verdict == rj.MustAccept) {
		return fmt.Errorf("I5: Parse err=%v but the document is %v\n%s", perr, verdict, describe())
	}
	target := pj
	if perr == nil {
		var want []byte
		if c.ND {
			want = modelCanonAll(ndDocs, canonOpts{})
		} else {
			if err := rj.ResolveNumbers(model); err != nil {
				return bugf("%v", err)
			}
			want = canonNode(nil, model, canonOpts{})
		}
		got, err := walkW1(pj)
		if err != nil {
			return fmt.Errorf("I5: result not traversable: %v\n%s", err, describe())
		}
		if !bytes.Equal(want, got) {
			return fmt.Errorf("I5: the document exposed under this schedule differs from the input: %s\n%s", diffCanon(want, got), describe())
		}
		if _, err := tapeCheck(pj, true); err != nil {
			return fmt.Errorf("I5: tape format: %v\n%s", err, describe())
		}
	} else {
		target = reuse
	}
	// I4 (second half): a following reuse parse behaves like a fresh one (stale index buffers would surface here)
	probe := []byte(`{"probe":[1,"two",3.5,{"four":null}],"n":` + strconv.Itoa(len(doc)) + `}`)
	big := []byte("[" + strings.Repeat(`"r",`, 3000) + `"end"]`)
	for _, in := range [][]byte{probe, big} {
		fresh, ferr := simdjson.Parse(append([]byte(nil), in...), nil)
		again, aerr := simdjson.Parse(append([]byte(nil), in...), target)
		if ferr != nil || aerr != nil {
			return fmt.Errorf("I4: reuse parse after the scheduled run failed: fresh %v, reused %v\n%s", ferr, aerr, describe())
		}
		a, _ := walkW1(fresh)
		b, err := walkW1(again)
		if err != nil || !bytes.Equal(a, b) {
			return fmt.Errorf("I4: reuse parse after the scheduled run differs from a fresh parse: %v %s\n%s", err, diffCanon(a, b), describe())
		}
		target = again
	}
	out := "accepted"
	if perr != nil {
		out = "rejected"
	}
	lastC07 = c07Facts{buffers: s.buffers, decisions: s.decisions, maxQ: s.maxQ, fullRingLag: s.fullRingLag, consBlockedEm: s.consBlockedEmp, outcome: out}
	return nil
}

var c07Run = register("C07", "schedule", c07Check)

func genC07Case(t *rapid.T) c07Case {
	c := c07Case{Kind: rapid.IntRange(0, len(c07Templates)-1).Draw(t, "kind"), Copy: rapid.Bool().Draw(t, "copy"), Reuse: rapid.IntRange(0, 2).Draw(t, "reuse") == 0}
	tmpl := c07Templates[c.Kind]
	per := structuralsOf(tmpl) + 1
	maxBuf := 40
	if thorough() {
		maxBuf = 120
	}
	if c.Kind == 8 {
		// a few elements, each a string of about 2.6 MB
		c.N = rapid.IntRange(1, 3).Draw(t, "nlong")
		c.Strategy = rapid.IntRange(0, 3).Draw(t, "strategy")
		c.Procs = []int{1, 2, 4, 16}[rapid.IntRange(0, 3).Draw(t, "gomaxprocs")]
		if rapid.IntRange(0, 2).Draw(t, "invalid") == 0 {
			c.ErrKind = rapid.IntRange(1, 6).Draw(t, "errkind")
			c.ErrPos = rapid.IntRange(0, 1000).Draw(t, "errpm")
		}
		return c
	}
	if c.Kind == 9 {
		maxBuf = 400 // beyond 1 MiB
	}
	nbuf := rapid.IntRange(3, maxBuf).Draw(t, "buffers")
	if rapid.Bool().Draw(t, "wrap") && c.Kind != 9 {
		nbuf = 14 + nbuf%24 // around and beyond the 16-slot ring
	}
	errNearEnd := c.Kind == 9 && rapid.Bool().Draw(t, "errnearend")
	c.N = nbuf * 1408 / per
	minN := 8300/(len(tmpl)+1) + 1
	if c.N < minN {
		c.N = minN
	}
	if rapid.IntRange(0, 2).Draw(t, "invalid") == 0 {
		c.ErrKind = rapid.IntRange(1, 7).Draw(t, "errkind")
		c.ErrPos = []int{1, 20, 500, 900, 999}[rapid.IntRange(0, 4).Draw(t, "errpos")]
		if rapid.Bool().Draw(t, "anypos") {
			c.ErrPos = rapid.IntRange(0, 1000).Draw(t, "errpm")
		}
		if errNearEnd {
			// an error a little more than a ring's worth of index buffers before the end of the document
			c.ErrPos = 1000 - 1000*rapid.IntRange(12, 20).Draw(t, "bufsbeforeend")/nbuf
			if c.ErrPos < 0 {
				c.ErrPos = 0
			}
		}
	}
	c.Procs = []int{1, 2, 4, 16}[rapid.IntRange(0, 3).Draw(t, "gomaxprocs")]
	c.ND = rapid.IntRange(0, 3).Draw(t, "nd") == 0
	c.Strategy = rapid.IntRange(0, 3).Draw(t, "strategy")
	c.K1 = rapid.IntRange(0, 40).Draw(t, "k1")
	c.K2 = rapid.IntRange(0, 40).Draw(t, "k2")
	if c.Strategy == 3 {
		c.Decisions = rapid.SliceOfN(rapid.Byte(), 1, 64).Draw(t, "decisions")
	}
	return c
}

func TestC07_Schedules(t *testing.T) {
	runRapid(t, "C07_Schedules", nCases(3_000, 60_000), func(t *rapid.T) {
		c := genC07Case(t)
		// keep the document inside the domain (valid or clearly invalid, > 8 KiB)
		doc := c.doc()
		if c.ND {
			if _, _, judged, _ := ndExpectation(doc); !judged {
				col("C07").Skip("ND document not judged")
				return
			}
		}
		if v, _ := rj.Classify(doc); (!c.ND && v == rj.Either) || len(bytes.TrimSpace(doc)) <= 8<<10 {
			col("C07").Skip("document outside the domain (EITHER class or <= 8 KiB after the injected error)")
			return
		}
		c07Run(t, c)
		f := lastC07
		b, _ := json.Marshal(c)
		cl := col("C07")
		nt := f.buffers > simdjson.VerifIndexSlots && (f.fullRingLag || f.consBlockedEm)
		cl.Eval(nt, evidHash(b), "mode:forced-schedule", fmt.Sprintf("strategy:%d", c.Strategy%4), "outcome:"+f.outcome, fmt.Sprintf("errkind:%d", c.ErrKind),
			boolClass("full-ring-lag", f.fullRingLag), boolClass("consumer-blocked-on-empty", f.consBlockedEm), boolClass("ring-wrapped", f.buffers > simdjson.VerifIndexSlots), fmt.Sprintf("maxq:%d", f.maxQ))
		cl.Sample(func() interface{} {
			return map[string]interface{}{"mode": "forced-schedule", "template": c07Templates[c.Kind], "n": c.N, "err_kind": c.ErrKind, "err_pos": c.ErrPos, "strategy": c.Strategy, "buffers": f.buffers, "decisions": f.decisions, "max_queued": f.maxQ, "outcome": f.outcome}
		})
	})
	col("C07").Completed("TestC07_Schedules")
}

// ---- second mode: un-gated runs under the race detector with injected yields ----

type c07RaceCase struct {
	C     c07Case `json:"c"`
	Procs int     `json:"procs"`
	Yield []byte  `json:"yield"` // per event: 0 nothing, 1 Gosched, 2 sleep 1us, 3 sleep 50us
}

func c07RaceCheck(rc c07RaceCase) error {
	c := rc.C
	doc := c.doc()
	crumb("C07", "race", rc)
	defer clearCrumb()
	stop := watchdog(hangLimit(), "C07 race case")
	defer stop()
	procs := rc.Procs
	if procs < 1 {
		procs = 1
	}
	old := runtime.GOMAXPROCS(procs)
	defer runtime.GOMAXPROCS(old)
	verdict, model := rj.Classify(doc)
	var ndDocs []*rj.Node
	if c.ND {
		ok, docs, judged, _ := ndExpectation(doc)
		if !judged {
			return nil
		}
		ndDocs = docs
		verdict = rj.MustReject
		if ok {
			verdict = rj.MustAccept
		}
	}
	if verdict == rj.Either {
		return bugf("EITHER-class document")
	}
	var pctr, cctr int
	hook := func(e simdjson.VerifPipeEvent) {
		if len(rc.Yield) == 0 {
			return
		}
		var k int
		if roleOf(e.Ev) == roleP {
			pctr++
			k = pctr
		} else {
			cctr++
			k = cctr + 7
		}
		switch rc.Yield[k%len(rc.Yield)] % 4 {
		case 1:
			runtime.Gosched()
		case 2:
			time.Sleep(time.Microsecond)
		case 3:
			time.Sleep(50 * time.Microsecond)
		}
	}
	simdjson.VerifSetPipeHook(hook)
	var pj *simdjson.ParsedJson
	var perr error
	if c.ND {
		pj, perr = simdjson.ParseND(append([]byte(nil), doc...), nil, simdjson.WithCopyStrings(c.Copy))
	} else {
		pj, perr = simdjson.Parse(append([]byte(nil), doc...), nil, simdjson.WithCopyStrings(c.Copy))
	}
	simdjson.VerifSetPipeHook(nil)
	if (perr == nil) != (verdict == rj.MustAccept) {
		return fmt.Errorf("I5: Parse err=%v but the document is %v (GOMAXPROCS %d, %d bytes)", perr, verdict, procs, len(doc))
	}
	if perr == nil {
		var want []byte
		if c.ND {
			want = modelCanonAll(ndDocs, canonOpts{})
		} else {
			rj.ResolveNumbers(model)
			want = canonNode(nil, model, canonOpts{})
		}
		got, err := walkW1(pj)
		if err != nil || !bytes.Equal(want, got) {
			return fmt.Errorf("I5: document differs under GOMAXPROCS %d: %v %s", procs, err, diffCanon(want, got))
		}
	}
	return nil
}

var c07RaceRun = register("C07", "race", c07RaceCheck)

func TestC07R_Race(t *testing.T) {
	runRapid(t, "C07R_Race", nCases(2_000, 40_000), func(t *rapid.T) {
		c := genC07Case(t)
		doc := c.doc()
		if v, _ := rj.Classify(doc); v == rj.Either && !c.ND {
			return
		}
		rc := c07RaceCase{C: c, Procs: []int{1, 2, 3, 8, 16}[rapid.IntRange(0, 4).Draw(t, "procs")], Yield: rapid.SliceOfN(rapid.Byte(), 0, 32).Draw(t, "yield")}
		c07RaceRun(t, rc)
		b, _ := json.Marshal(rc)
		col("C07").Eval(true, evidHash(b), "mode:race-detector", fmt.Sprintf("procs:%d", rc.Procs))
	})
	col("C07").Completed("TestC07R_Race")
}
