package props

import (
	"bytes"
	"fmt"
	"strings"
	"testing"

	simdjson "github.com/minio/simdjson-go"
	"pgregory.net/rapid"

	rj "verifharness/internal/refjson"
)

// C08: ParseND equals parsing each non-blank line.

type ndCase struct {
	In []byte `json:"in"`
}

func isBlankLine(l []byte) bool {
	for _, c := range l {
		if c != ' ' && c != '\t' && c != '\r' {
			return false
		}
	}
	return true
}

// ndExpectation: per the property's own definition plus the reference oracle.
// judged=false: some line is in the EITHER class (or Parse and the reference disagree: C01's business) -> case discarded.
type ndMemo struct {
	h      uint64
	n      int
	ok     bool
	docs   []*rj.Node
	judged bool
	why    string
}

var ndLast ndMemo

func ndExpectation(in []byte) (ok bool, docs []*rj.Node, judged bool, why string) {
	h := evidHash(in)
	if ndLast.h == h && ndLast.n == len(in) {
		return ndLast.ok, ndLast.docs, ndLast.judged, ndLast.why
	}
	ok, docs, judged, why = ndExpectation0(in)
	ndLast = ndMemo{h, len(in), ok, docs, judged, why}
	return
}

func ndExpectation0(in []byte) (ok bool, docs []*rj.Node, judged bool, why string) {
	lines := bytes.Split(in, []byte{'\n'})
	ok = true
	nonBlank := 0
	for _, l := range lines {
		if isBlankLine(l) {
			continue
		}
		if len(bytes.TrimSpace(l)) == 0 {
			// only non-JSON Unicode white space (\v, \f, U+0085, U+00A0): neither a document nor a blank line in the
			// JSON sense; the library trims such bytes at the edges of the input. Outside the claim (as in C01).
			return false, nil, false, "a line holds only non-JSON Unicode white space"
		}
		nonBlank++
		v, m := rj.Classify(l)
		_, perr := simdjson.Parse(append([]byte(nil), l...), nil)
		switch v {
		case rj.Either:
			return false, nil, false, "a line is in the EITHER class"
		case rj.MustAccept:
			if perr != nil {
				return false, nil, false, "Parse rejects a line the reference accepts (C01)"
			}
			if err := rj.ResolveNumbers(m); err != nil {
				return false, nil, false, "number oracle"
			}
			docs = append(docs, m)
		case rj.MustReject:
			if perr == nil {
				return false, nil, false, "Parse accepts a line the reference rejects (C01)"
			}
			ok = false
		}
	}
	if nonBlank == 0 {
		return false, nil, false, "no non-blank line"
	}
	return ok, docs, true, ""
}

func c08Check(c ndCase) error {
	want, docs, judged, _ := ndExpectation(c.In)
	if !judged {
		return nil
	}
	for _, cfg := range parseCfgsSib(c.In) {
		in := append([]byte(nil), c.In...)
		pj, err := parseWith(cfg, in, true)
		if (err == nil) != want {
			if want {
				return fmt.Errorf("[%s] every non-blank line is a valid document, but ParseND failed: %v\ninput: %q", cfg, err, clip(c.In))
			}
			return fmt.Errorf("[%s] a line is not a valid document, but ParseND succeeded\ninput: %q", cfg, clip(c.In))
		}
		if err != nil {
			if pj != nil {
				return fmt.Errorf("[%s] ParseND returned an error and a result", cfg)
			}
			continue
		}
		mc := func(o canonOpts) []byte { return modelCanonAll(docs, o) }
		if err := compareWalkers(pj, []walker{wW4, wW2, wW1, wW3, wW5}, mc); err != nil {
			return fmt.Errorf("[%s] ParseND exposes different documents than parsing each line: %v\ninput: %q", cfg, err, clip(c.In))
		}
		if _, err := tapeCheck(pj, true); err != nil {
			return fmt.Errorf("[%s] tape format: %v\ninput: %q", cfg, err, clip(c.In))
		}
	}
	return nil
}

var c08Run = register("C08", "ndjson", c08Check)

// C17 on newline-delimited tapes
func c17NDCheck(c ndCase) error {
	want, _, judged, _ := ndExpectation(c.In)
	if !judged || !want {
		return nil
	}
	for _, cfg := range parseCfgs() {
		pj, err := parseWith(cfg, append([]byte(nil), c.In...), true)
		if err != nil {
			return nil // C08's business
		}
		if _, err := tapeCheck(pj, true); err != nil {
			return fmt.Errorf("[%s] tape format violated (ParseND): %v\ninput: %q", cfg, err, clip(c.In))
		}
	}
	return nil
}

var c17NDRun = register("C17", "ndjson", c17NDCheck)

var ndLineTemplates = []string{`[]`, `{}`, `[1]`, `{"a":1}`, `["x","y"]`, `{"k":"v\n"}`, `[[],{}]`, `[true,false,null]`, `{"a":{"b":[1,2,3]}}`, `[1.5e3,-2]`, `"scalar"`, `1`, `[1,]`, `{"a":}`, `[1] [2]`, `{"a":1}{"b":2}`, `[`, `]`, `[1,`, `2]`, `tru`, `["é😀"]`, `[[1,2]`, `{"a":{"b":1}`, `[{"a":[1]}`, `[1]]`, `{"a":1}}`}

func genNDInput(t *rapid.T) ([]byte, string) {
	var b bytes.Buffer
	kind := rapid.IntRange(0, 6).Draw(t, "ndkind")
	crlfAll := rapid.IntRange(0, 3).Draw(t, "crlf") == 0
	eol := func() {
		if crlfAll || rapid.IntRange(0, 7).Draw(t, "crlf1") == 0 {
			b.WriteString("\r\n")
		} else {
			b.WriteByte('\n')
		}
	}
	name := ""
	switch kind {
	case 0, 1: // generated documents, blank lines anywhere
		n := rapid.IntRange(1, 12).Draw(t, "lines")
		for i := 0; i < n; i++ {
			switch rapid.IntRange(0, 9).Draw(t, "lk") {
			case 0:
				eol() // blank
				continue
			case 1:
				b.WriteString([]string{" ", "\t", "  \t ", "\r"}[rapid.IntRange(0, 3).Draw(t, "ws")])
				eol()
				continue
			case 2: // invalid line: mutated document
				text, toks := render(genDoc(t, profTiny), layout{NoLF: true})
				text, _ = mutate(t, text, toks)
				b.Write(text)
			default:
				text, _ := render(genDoc(t, pickProfile(t)), layout{Mode: rapid.IntRange(0, 3).Draw(t, "ws"), Seed: rapid.Uint64().Draw(t, "wss"), NoLF: true, Lead: rapid.IntRange(0, 2).Draw(t, "lead"), Trail: rapid.IntRange(0, 2).Draw(t, "trail")})
				b.Write(text)
			}
			eol()
		}
		name = "generated-lines"
	case 2: // template lines, incl. two documents on one line and documents split over lines
		n := rapid.IntRange(1, 30).Draw(t, "lines")
		valid := rapid.Bool().Draw(t, "onlyvalid")
		for i := 0; i < n; i++ {
			hi := len(ndLineTemplates) - 1
			if valid {
				hi = 9
			}
			b.WriteString(ndLineTemplates[rapid.IntRange(0, hi).Draw(t, "tmpl")])
			eol()
			if rapid.IntRange(0, 5).Draw(t, "blank") == 0 {
				eol()
			}
		}
		name = "template-lines"
	case 3: // many short lines so that root boundaries fall on index-buffer boundaries and beyond the ring
		tmpl := ndLineTemplates[rapid.IntRange(0, 9).Draw(t, "tmpl")]
		per := structuralsOf(tmpl) + 1
		k := rapid.IntRange(1, 18).Draw(t, "bufk")
		maxLines := 6000
		if thorough() {
			maxLines = 45000
		}
		if rapid.IntRange(0, 3).Draw(t, "fewbuffers") != 0 {
			k = 1 + k%2
		}
		n := (1408*k+rapid.IntRange(-3, 3).Draw(t, "d"))/per + rapid.IntRange(-1, 1).Draw(t, "dn")
		if n > maxLines {
			n = maxLines
		}
		if n < 1 {
			n = 1
		}
		bad := -1
		if rapid.IntRange(0, 3).Draw(t, "onebad") == 0 {
			bad = rapid.IntRange(0, n-1).Draw(t, "badline")
			if rapid.IntRange(0, 2).Draw(t, "badlast") == 0 {
				bad = n - 1 // the verdict of the last line is the last thing stage 2 decides
			}
		}
		blankEvery := rapid.IntRange(0, 50).Draw(t, "blankEvery")
		lineEnd := []string{"\n", "\n", "\r\n", " \n", "\t\r\n"}[rapid.IntRange(0, 4).Draw(t, "lineend")]
		// a first line of generated length shifts every later line relative to blocks and index buffers
		b.WriteString(`["` + strings.Repeat("s", rapid.IntRange(0, 130).Draw(t, "shift")) + `"]` + lineEnd)
		for i := 0; i < n; i++ {
			if i == bad {
				b.WriteString(ndLineTemplates[rapid.IntRange(10, len(ndLineTemplates)-1).Draw(t, "badtmpl")])
			} else {
				b.WriteString(tmpl)
			}
			b.WriteString(lineEnd)
			if blankEvery > 0 && i%blankEvery == blankEvery-1 {
				b.WriteByte('\n')
			}
		}
		name = "many-lines"
	case 4: // total size around the 8 KiB threshold
		total := 8192 + rapid.IntRange(-4, 4).Draw(t, "dlen")
		line := `{"k":"` + strings.Repeat("v", 50) + `"}` + "\n"
		for b.Len()+len(line) < total-12 {
			b.WriteString(line)
		}
		rest := total - b.Len() - 5
		if rest < 0 {
			rest = 0
		}
		b.WriteString(`["` + strings.Repeat("x", rest) + `"]`)
		name = "len8KiB"
	case 6: // long white-space runs (whole 64-byte blocks without any other byte) around, inside and between documents,
		// so that line feeds fall into blocks that hold nothing but white space
		ws := func() string {
			n := rapid.IntRange(40, 200).Draw(t, "wslen")
			switch rapid.IntRange(0, 2).Draw(t, "wskind") {
			case 0:
				return strings.Repeat(" ", n)
			case 1:
				return strings.Repeat("\t", n)
			}
			return strings.Repeat(" \t \r", n/4+1)
		}
		b.WriteString(strings.Repeat(" ", rapid.IntRange(0, 63).Draw(t, "shift")))
		n := rapid.IntRange(2, 8).Draw(t, "lines")
		for i := 0; i < n; i++ {
			switch rapid.IntRange(0, 6).Draw(t, "lk") {
			case 0: // white-space-only line
				b.WriteString(ws())
			case 1: // a document split across lines inside a white-space run (not a valid line sequence)
				b.WriteString("[1," + ws() + "\n" + ws() + "2]")
			case 2: // two documents on one line, far apart
				b.WriteString("[1]" + ws() + "{}")
			case 3:
				b.WriteString(ws() + ndLineTemplates[rapid.IntRange(0, 9).Draw(t, "tmpl")] + ws())
			case 4:
				b.WriteString("[" + ws() + `"a"` + ws() + "," + ws() + "{" + ws() + "}" + ws() + "]")
			default:
				b.WriteString(ndLineTemplates[rapid.IntRange(0, 9).Draw(t, "tmpl")] + ws())
			}
			eol()
		}
		name = "wide-white-space"
	default: // leading / trailing blank lines and white space around the whole input
		b.WriteString([]string{"", "\n", "\n\n", " \n", "\r\n", "\t"}[rapid.IntRange(0, 5).Draw(t, "pre")])
		n := rapid.IntRange(1, 4).Draw(t, "lines")
		for i := 0; i < n; i++ {
			b.WriteString(ndLineTemplates[rapid.IntRange(0, 9).Draw(t, "tmpl")])
			if i < n-1 {
				eol()
			}
		}
		b.WriteString([]string{"", "\n", "\n\n", " ", "\r\n", "\n \n"}[rapid.IntRange(0, 5).Draw(t, "post")])
		name = "edges"
	}
	out := b.Bytes()
	if rapid.IntRange(0, 2).Draw(t, "nofinal") == 0 {
		out = bytes.TrimRight(out, "\r\n")
	}
	return out, name
}

func ndClasses(in []byte) (cls []string, nontrivial bool) {
	lines := bytes.Split(in, []byte{'\n'})
	nonBlank, blank, crlf := 0, 0, false
	for _, l := range lines {
		if isBlankLine(l) {
			blank++
		} else {
			nonBlank++
			if len(l) > 0 && l[len(l)-1] == '\r' {
				crlf = true
			}
		}
	}
	want, _, judged, why := ndExpectation(in)
	if !judged {
		return []string{"discarded:" + why}, false
	}
	cls = append(cls, boolClass("expect-success", want), boolClass("blank-lines", blank > 0), boolClass("crlf", crlf), boolClass("final-newline", len(in) > 0 && in[len(in)-1] == '\n'))
	ns := structuralCount(in)
	boundary := ns > 1408 || len(in) > 8192
	if ns > 1408 {
		cls = append(cls, "boundary:>1408-structurals")
	}
	if ns > 16*1408 {
		cls = append(cls, "boundary:ring-wrap")
	}
	nontrivial = nonBlank >= 2 && (blank > 0 || crlf || !want || boundary)
	return
}

func TestC08_Lines(t *testing.T) {
	runRapid(t, "C08_Lines", nCases(30_000, 600_000), func(t *rapid.T) {
		in, gen := genNDInput(t)
		c08Run(t, ndCase{In: in})
		cls, nt := ndClasses(in)
		cl := col("C08")
		if len(cls) == 1 && strings.HasPrefix(cls[0], "discarded:") {
			cl.Skip(cls[0])
			return
		}
		cl.Eval(nt, evidHash(in), append(cls, "gen:"+gen)...)
		cl.Sample(func() interface{} { return map[string]interface{}{"input": clip(in), "len": len(in), "gen": gen} })
	})
	col("C08").Completed("TestC08_Lines")
}

func TestC17_ND(t *testing.T) {
	runRapid(t, "C17_ND", nCases(15_000, 400_000), func(t *rapid.T) {
		in, gen := genNDInput(t)
		c17NDRun(t, ndCase{In: in})
		want, docs, judged, _ := ndExpectation(in)
		if !judged || !want {
			col("C17").Skip("ND input not accepted / not judged")
			return
		}
		col("C17").Eval(len(docs) >= 2, evidHash(in, []byte("nd")), "src:parseND", "gen:"+gen)
	})
	col("C17").Completed("TestC17_ND")
}

// C17 on deserialized (possibly edited) tapes
func c17SerCheck(c c11Case) error {
	pj, _, err := buildEdited(c.H)
	if err != nil {
		return err
	}
	s := simdjson.NewSerializer()
	s.CompressMode(simdjson.CompressMode(c.SerMode % 4))
	var dst *simdjson.ParsedJson
	if c.DstUsed {
		// the destination held another, longer document before
		prev, perr := simdjson.Parse([]byte(`{"previous":[{"a":[1,2,3,{"b":[4,5,6]}]},"document","with","a","longer","tape",[[[[1.5,2.5]]]],{"k":{"k":{"k":null}}},0,1,2,3,4,5,6,7,8,9,10,11,12,13,14,15,16,17,18,19,20]}`), nil)
		if perr != nil {
			return bugf("%v", perr)
		}
		dst, perr = s.Deserialize(s.Serialize(nil, *prev), nil)
		if perr != nil {
			return bugf("%v", perr)
		}
	}
	out, err := s.Deserialize(s.Serialize(nil, *pj), dst)
	if err != nil {
		return fmt.Errorf("Deserialize(Serialize(tape)) into a destination (reused: %v): %v", c.DstUsed, err)
	}
	if _, err := tapeCheck(out, true); err != nil {
		return fmt.Errorf("deserialized tape violates the format (mode %d): %v\ndocument %q, %d edits", c.SerMode%4, err, clip(c.H.Doc), len(c.H.Ops))
	}
	return nil
}

var c17SerRun = register("C17", "deserialized", c17SerCheck)

func TestC17_Deserialized(t *testing.T) {
	mix := opMix{sets: true, delObj: true, delArr: true, setNullContainer: true, nullRoot: true}
	runRapid(t, "C17_Deserialized", nCases(30_000, 600_000), func(t *rapid.T) {
		h := genHistory(t, mix, 8, editProfiles)
		c := c11Case{H: h, SerMode: rapid.IntRange(0, 3).Draw(t, "mode"), DstUsed: rapid.Bool().Draw(t, "dstused")}
		c17SerRun(t, c)
		f := historyFactsOf(h)
		col("C17").Eval(f.nopGap || h.ND, historyHash(h), "src:deserialized", boolClass("nop-run", f.nopGap))
	})
	col("C17").Completed("TestC17_Deserialized")
}
