package props

import (
	"fmt"
	"math"
	"math/big"
	"strconv"
	"strings"
	"unicode/utf8"

	"pgregory.net/rapid"

	rj "verifharness/internal/refjson"
)

// ---------------------------------------------------------------------------------------------
// Strings as lists of pieces: source text and the bytes it must decode to.

var shortEscapes = []struct {
	src string
	out byte
}{{`\"`, '"'}, {`\\`, '\\'}, {`\/`, '/'}, {`\b`, '\b'}, {`\f`, '\f'}, {`\n`, '\n'}, {`\r`, '\r'}, {`\t`, '\t'}}

const asciiPlain = "abcdefghijklmnopqrstuvwxyzABCDEFGHIJKLMNOPQRSTUVWXYZ0123456789 _-.,:;{}[]/!#$%&'()*+<=>?@^`|~"

func hex4Case(v int, caseBits int) string {
	s := fmt.Sprintf("%04x", v)
	b := []byte(s)
	for i := 0; i < 4; i++ {
		if caseBits&(1<<i) != 0 && b[i] >= 'a' {
			b[i] -= 32
		}
	}
	return string(b)
}

// genPiece appends one piece to src/out.
func genPiece(t *rapid.T, src, out []byte, kindMax int) ([]byte, []byte) {
	k := rapid.IntRange(0, kindMax).Draw(t, "piece")
	switch k {
	case 0, 1: // ASCII run
		n := rapid.IntRange(1, 9).Draw(t, "n")
		st := rapid.IntRange(0, len(asciiPlain)-1).Draw(t, "a0")
		for i := 0; i < n; i++ {
			c := asciiPlain[(st+i*7)%len(asciiPlain)]
			src = append(src, c)
			out = append(out, c)
		}
	case 2: // short escape
		e := shortEscapes[rapid.IntRange(0, 7).Draw(t, "esc")]
		src = append(src, e.src...)
		out = append(out, e.out)
	case 3: // \uXXXX BMP non-surrogate
		v := rapid.IntRange(0, 0xffff-0x800).Draw(t, "cu")
		if v >= 0xd800 {
			v += 0x800
		}
		cb := rapid.IntRange(0, 15).Draw(t, "case")
		src = append(src, `\u`...)
		src = append(src, hex4Case(v, cb)...)
		out = utf8.AppendRune(out, rune(v))
	case 4: // multi-byte UTF-8 raw
		var r rune
		switch rapid.IntRange(0, 2).Draw(t, "w") {
		case 0:
			r = rune(rapid.IntRange(0x80, 0x7ff).Draw(t, "r2"))
		case 1:
			r = rune(rapid.IntRange(0x800, 0xffff-0x800).Draw(t, "r3"))
			if r >= 0xd800 {
				r += 0x800
			}
		default:
			r = rune(rapid.IntRange(0x10000, 0x10ffff).Draw(t, "r4"))
		}
		src = utf8.AppendRune(src, r)
		out = utf8.AppendRune(out, r)
	case 5: // surrogate pair
		cp := rapid.IntRange(0x10000, 0x10ffff).Draw(t, "cp")
		hi := 0xd800 + (cp-0x10000)>>10
		lo := 0xdc00 + (cp-0x10000)&0x3ff
		cb := rapid.IntRange(0, 255).Draw(t, "case")
		src = append(src, `\u`...)
		src = append(src, hex4Case(hi, cb&15)...)
		src = append(src, `\u`...)
		src = append(src, hex4Case(lo, cb>>4)...)
		out = utf8.AppendRune(out, rune(cp))
	case 6: // long filler
		n := rapid.IntRange(20, 140).Draw(t, "fill")
		for i := 0; i < n; i++ {
			c := asciiPlain[(i*11+n)%len(asciiPlain)]
			src = append(src, c)
			out = append(out, c)
		}
	case 7: // DEL and 0x7f-ish raw bytes that need no escape, plus escaped control
		v := rapid.IntRange(0, 0x1f).Draw(t, "ctl")
		src = append(src, `\u00`...)
		src = append(src, fmt.Sprintf("%02x", v)...)
		out = append(out, byte(v))
		src = append(src, 0x7f)
		out = append(out, 0x7f)
	}
	return src, out
}

// genString draws a string (src between quotes, decoded bytes). rich=false gives mostly short ASCII.
func genString(t *rapid.T, rich bool) (src, out []byte) {
	if !rich {
		n := rapid.IntRange(0, 3).Draw(t, "pieces")
		for i := 0; i < n; i++ {
			src, out = genPiece(t, src, out, 2)
		}
		return
	}
	n := rapid.IntRange(0, 6).Draw(t, "pieces")
	for i := 0; i < n; i++ {
		src, out = genPiece(t, src, out, 7)
	}
	return
}

// ---------------------------------------------------------------------------------------------
// Number literals

var numberPool = func() []string {
	p := []string{"0", "-0", "1", "-1", "0.0", "-0.0", "0e0", "0E+0", "0e-0", "1e0", "1E5", "1e+5", "1e-5", "1.5", "-1.5e3", "0.1", "0.2", "0.3",
		"9223372036854775806", "9223372036854775807", "9223372036854775808", "9223372036854775809",
		"-9223372036854775807", "-9223372036854775808", "-9223372036854775809", "-9223372036854775810",
		"18446744073709551614", "18446744073709551615", "18446744073709551616", "18446744073709551617",
		"99999999999999999999", "100000000000000000000", "-99999999999999999999", "123456789012345678901234567890",
		"1e308", "1.7976931348623157e308", "1.7976931348623158e308", "-1.7976931348623157e308",
		"4.9e-324", "5e-324", "2.4703282292062327e-324", "2.4703282292062328e-324", "2.2250738585072014e-308", "2.2250738585072011e-308", "2.225073858507201e-308",
		"1e-400", "-1e-400", "1e-999999", "0.000001", "1e21", "1e-7", "123456789.123456789", "9007199254740993", "9007199254740992.5", "4503599627370496.5",
		"0.01e-9223372036854775808", "1e-99999999999999999999", "0e99999999999999999999", "5E-4611686018427387904",
		"1.0e+00", "1E-02", "10", "100", "1000000", "1e1", "0.5", "-0.5", "0.25", "3.141592653589793", "2.718281828459045e0",
		"9223372036854775807.0", "9223372036854775808.0", "18446744073709551615.0", "1e19", "1e20", "12345678901234567890", "0.1e1", "0.00", "-0e0",
	}
	// payload words whose top byte is one of the tape's tag bytes (a reader that recognises entries by their top
	// byte alone would take such a number's value word for a tag): as int64 values and as float64 bit patterns
	for _, w := range tagLookalikeWords {
		p = append(p, strconv.FormatInt(int64(w), 10), strconv.FormatFloat(math.Float64frombits(w), 'g', -1, 64))
	}
	// exponents with leading zeros (any number of them is allowed by the grammar)
	p = append(p, "1e-0001", "25E-0002", "5e-0324", "1e+0001", "7E00000000000000000000012", "1e-000000000000000000000", "2.5e0010", "1e-0400", "1E+00308")
	return p
}()

// tagLookalikeWords: 64-bit payloads with a tag byte on top; all are positive int64 values and finite floats.
var tagLookalikeWords = func() []uint64 {
	var ws []uint64
	for _, tag := range []byte("r{}[]\"ludtfnN") {
		ws = append(ws, uint64(tag)<<56|1, uint64(tag)<<56|0x000fedcba9876543, uint64(tag)<<56)
	}
	return ws
}()

// halfwayLiteral returns a decimal literal exactly halfway between two adjacent doubles, optionally perturbed in the
// last digit (dir -1/0/+1) after appending k extra digits.
func halfwayLiteral(bits uint64, dir int, extra int) string {
	f := math.Float64frombits(bits &^ (1 << 63))
	g := math.Float64frombits((bits &^ (1 << 63)) + 1)
	if math.IsInf(g, 0) || math.IsNaN(g) || math.IsNaN(f) || math.IsInf(f, 0) {
		return "1"
	}
	a, _ := new(big.Float).SetPrec(2200).SetFloat64(f).Rat(nil)
	b, _ := new(big.Float).SetPrec(2200).SetFloat64(g).Rat(nil)
	h := new(big.Rat).Add(a, b)
	h.Quo(h, big.NewRat(2, 1))
	// exact decimal expansion: the denominator is a power of two, so the expansion terminates.
	s := h.FloatString(1100)
	s = strings.TrimRight(s, "0")
	if strings.HasSuffix(s, ".") {
		s += "0"
	}
	if extra > 0 {
		s += strings.Repeat("0", extra)
	}
	if dir != 0 {
		// perturb the last digit
		bs := []byte(s)
		i := len(bs) - 1
		if dir > 0 {
			if bs[i] == '9' {
				bs = append(bs, '1')
			} else {
				bs[i]++
			}
		} else {
			if bs[i] == '0' {
				// borrow is awkward; append a digit below instead: x.y0 -> x.(y-1)9.. ; simpler: drop to previous by string math
				r, _ := new(big.Rat).SetString(string(bs))
				eps := new(big.Rat).SetFrac(big.NewInt(1), new(big.Int).Exp(big.NewInt(10), big.NewInt(int64(len(bs))), nil))
				r.Sub(r, eps)
				return r.FloatString(len(bs) + 2)
			}
			bs[i]--
		}
		s = string(bs)
	}
	// grammar: no leading zeros beyond a single one
	if strings.HasPrefix(s, ".") {
		s = "0" + s
	}
	return s
}

func genNumberLit(t *rapid.T) string {
	switch rapid.IntRange(0, 9).Draw(t, "numkind") {
	case 0, 1:
		return numberPool[rapid.IntRange(0, len(numberPool)-1).Draw(t, "pool")]
	case 2, 3: // small integer
		return strconv.Itoa(rapid.IntRange(-1000, 100000).Draw(t, "small"))
	case 4: // integer with n digits
		n := rapid.IntRange(1, 25).Draw(t, "digits")
		var sb strings.Builder
		if rapid.Bool().Draw(t, "neg") {
			sb.WriteByte('-')
		}
		sb.WriteByte(byte('1' + rapid.IntRange(0, 8).Draw(t, "d0")))
		v := rapid.Uint64().Draw(t, "dig")
		for i := 1; i < n; i++ {
			sb.WriteByte(byte('0' + v%10))
			v = v/10 + uint64(i)*7919
		}
		return sb.String()
	case 5: // shortest rendering of a random double
		b := rapid.Uint64().Draw(t, "bits")
		if rapid.IntRange(0, 3).Draw(t, "bigint") == 0 {
			// large integer-valued doubles (2^53 .. 2^70) written in float notation
			b = uint64(1023+rapid.IntRange(53, 70).Draw(t, "bexp"))<<52 | b&(1<<52-1) | 1
			return strconv.FormatFloat(math.Float64frombits(b), 'f', 1, 64)
		}
		if (b>>52)&0x7ff == 0x7ff {
			b &^= 1 << 52
		}
		f := math.Float64frombits(b)
		return strconv.FormatFloat(f, byte("eEfg"[rapid.IntRange(0, 3).Draw(t, "fmt")]), -1, 64)
	case 6: // grammar-driven
		var sb strings.Builder
		if rapid.Bool().Draw(t, "neg") {
			sb.WriteByte('-')
		}
		if rapid.IntRange(0, 3).Draw(t, "zero") == 0 {
			sb.WriteByte('0')
		} else {
			sb.WriteString(strconv.FormatUint(rapid.Uint64Range(1, 1<<40).Draw(t, "int"), 10))
		}
		if rapid.Bool().Draw(t, "frac") {
			sb.WriteByte('.')
			n := rapid.IntRange(1, 20).Draw(t, "fd")
			v := rapid.Uint64().Draw(t, "fv")
			for i := 0; i < n; i++ {
				sb.WriteByte(byte('0' + v%10))
				v /= 10
			}
		}
		if rapid.Bool().Draw(t, "exp") {
			sb.WriteByte("eE"[rapid.IntRange(0, 1).Draw(t, "E")])
			sb.WriteString([]string{"", "+", "-"}[rapid.IntRange(0, 2).Draw(t, "es")])
			if rapid.Bool().Draw(t, "ez") {
				sb.WriteString("00")
			}
			sb.WriteString(strconv.Itoa(rapid.IntRange(0, 330).Draw(t, "ev")))
		}
		s := sb.String()
		if !rj.FiniteLiteral(s) {
			return "1e308"
		}
		return s
	case 7: // halfway case
		b := rapid.Uint64().Draw(t, "hbits")
		if (b>>52)&0x7ff >= 0x7fe {
			b &^= 3 << 61
		}
		s := halfwayLiteral(b, rapid.IntRange(-1, 1).Draw(t, "dir"), rapid.IntRange(0, 3).Draw(t, "extra"))
		if len(s) > 900 || !rj.ValidNumberLiteral(s) || !rj.FiniteLiteral(s) {
			return "0.5"
		}
		return s
	case 8: // boundary neighbours
		base := []string{"9223372036854775807", "18446744073709551615", "9223372036854775808", "18446744073709551616"}[rapid.IntRange(0, 3).Draw(t, "b")]
		n, _ := new(big.Int).SetString(base, 10)
		n.Add(n, big.NewInt(int64(rapid.IntRange(-3, 3).Draw(t, "d"))))
		s := n.String()
		if rapid.Bool().Draw(t, "neg") {
			s = "-" + s
		}
		return s
	default: // long digit strings
		n := rapid.IntRange(18, 40).Draw(t, "n")
		return strings.Repeat("9", n)
	}
}

// ---------------------------------------------------------------------------------------------
// Documents

type docProfile struct {
	Name      string
	MaxDepth  int
	MaxWidth  int
	Budget    int  // approximate number of nodes
	RichStr   bool // use escapes / multi-byte in strings
	KeyAlpha  int  // >0: keys from an alphabet of this many symbols (collisions, duplicates)
	NumHeavy  bool
	StrHeavy  bool
	UniqueKey bool // force unique keys in every object
	Spine     bool // add one deeply nested member (20..270 levels) to the root
}

var (
	profTiny   = docProfile{Name: "tiny", MaxDepth: 3, MaxWidth: 3, Budget: 8, RichStr: true, KeyAlpha: 4}
	profMedium = docProfile{Name: "medium", MaxDepth: 6, MaxWidth: 8, Budget: 60, RichStr: true}
	profKeys   = docProfile{Name: "keys", MaxDepth: 4, MaxWidth: 7, Budget: 40, KeyAlpha: 5}
	profUniq   = docProfile{Name: "uniq", MaxDepth: 4, MaxWidth: 7, Budget: 40, KeyAlpha: 11, UniqueKey: true}
	profStr    = docProfile{Name: "strings", MaxDepth: 3, MaxWidth: 8, Budget: 40, RichStr: true, StrHeavy: true}
	profNum    = docProfile{Name: "numbers", MaxDepth: 3, MaxWidth: 10, Budget: 50, NumHeavy: true}
	profDeep   = docProfile{Name: "deep", MaxDepth: 3, MaxWidth: 4, Budget: 10, KeyAlpha: 6, Spine: true}
)

var keyAlphabet = []string{"a", "b", "", "ab", "ba", "aa", strings.Repeat("k", 64), strings.Repeat("L", 63) + "-long-key-beyond-64-bytes", "c", "abc", "k\\u0041", "\\n", "é", "a b"}

// lookalikeStrings: string contents that look like JSON text themselves (numbers with exponents, atoms, structural
// characters, separators). Anything that post-processes marshalled or serialized output by scanning the bytes instead
// of tracking tokens is confused by them.
var lookalikeStrings = []string{"e-0", "stage-0", "1e-07", "1.5e-09", "e+0", "E-0", "-0", "0e-0x", "true", "null", "false", "]", "}", "[{", ",", ":", "\\n", "1,2", "{\\\"a\\\":1}", "e-", "e-00", "10e-05,", "\\u0065-0"}

type docGen struct {
	t      *rapid.T
	p      docProfile
	budget int
}

func genDoc(t *rapid.T, p docProfile) *rj.Node {
	g := &docGen{t: t, p: p, budget: p.Budget}
	isObj := rapid.Bool().Draw(t, "rootObj")
	root := g.container(isObj, 1)
	if p.Spine {
		// one member of the root is a spine of nested containers around the depths at which fixed-size scope stacks
		// (128 entries) would wrap, with small siblings on the way down and members after it
		d := []int{rapid.IntRange(120, 140).Draw(t, "spine"), rapid.IntRange(250, 270).Draw(t, "spine2"), rapid.IntRange(20, 119).Draw(t, "spine3")}[[]int{0, 0, 0, 2, 2, 1}[rapid.IntRange(0, 5).Draw(t, "spinesel")]]
		inner := &rj.Node{K: rj.Obj, O: []rj.Member{{Key: []byte("x"), KeySrc: []byte("x"), Val: &rj.Node{K: rj.Num, Lit: "1"}}}}
		for i := 0; i < d; i++ {
			switch rapid.IntRange(0, 5).Draw(t, "spinekind") {
			case 0:
				inner = &rj.Node{K: rj.Obj, O: []rj.Member{{Key: []byte("k"), KeySrc: []byte("k"), Val: inner}}}
			case 1:
				inner = &rj.Node{K: rj.Arr, A: []*rj.Node{{K: rj.Bool, B: true}, inner, {K: rj.Null}}}
			default:
				inner = &rj.Node{K: rj.Arr, A: []*rj.Node{inner}}
			}
		}
		tail := &rj.Node{K: rj.Bool, B: true}
		if root.K == rj.Obj {
			root.O = append(root.O, rj.Member{Key: []byte("deep"), KeySrc: []byte("deep"), Val: inner}, rj.Member{Key: []byte("after"), KeySrc: []byte("after"), Val: tail})
		} else {
			root.A = append(root.A, inner, tail)
		}
	}
	return root
}

func (g *docGen) key(used map[string]bool) (src, out []byte) {
	if g.p.KeyAlpha > 0 {
		for tries := 0; ; tries++ {
			k := keyAlphabet[rapid.IntRange(0, g.p.KeyAlpha-1).Draw(g.t, "key")]
			src = []byte(k)
			out = mustDecode(src)
			if !g.p.UniqueKey || !used[string(out)] {
				break
			}
			if tries > 3 {
				// fall back to a fresh unique key
				src = []byte("u" + strconv.Itoa(len(used)))
				out = src
				break
			}
		}
	} else {
		src, out = genString(g.t, g.p.RichStr && rapid.IntRange(0, 3).Draw(g.t, "richkey") == 0)
		if rapid.IntRange(0, 11).Draw(g.t, "lookalikekey") == 0 {
			src = []byte(lookalikeStrings[rapid.IntRange(0, len(lookalikeStrings)-1).Draw(g.t, "lk")])
			out = mustDecode(src)
		}
		if g.p.UniqueKey && used[string(out)] {
			src = []byte("u" + strconv.Itoa(len(used)))
			out = src
		}
	}
	used[string(out)] = true
	return
}

// mustDecode decodes a key source taken from keyAlphabet.
func mustDecode(src []byte) []byte {
	d, err := rj.ParseStrict([]byte(`["` + string(src) + `"]`))
	if err != nil {
		panic(err)
	}
	return d.A[0].S
}

func (g *docGen) container(isObj bool, depth int) *rj.Node {
	n := &rj.Node{K: rj.Arr}
	if isObj {
		n.K = rj.Obj
	}
	w := rapid.IntRange(0, g.p.MaxWidth).Draw(g.t, "width")
	used := map[string]bool{}
	for i := 0; i < w && g.budget > 0; i++ {
		g.budget--
		v := g.value(depth)
		if isObj {
			ks, ko := g.key(used)
			n.O = append(n.O, rj.Member{Key: ko, KeySrc: ks, Val: v})
		} else {
			n.A = append(n.A, v)
		}
	}
	return n
}

func (g *docGen) value(depth int) *rj.Node {
	hi := 9
	if depth >= g.p.MaxDepth || g.budget <= 0 {
		hi = 6
	}
	k := rapid.IntRange(0, hi).Draw(g.t, "vkind")
	if g.p.NumHeavy && k < 6 && k%2 == 0 {
		k = 3
	}
	if g.p.StrHeavy && k < 6 && k%2 == 0 {
		k = 5
	}
	switch k {
	case 0:
		return &rj.Node{K: rj.Null}
	case 1:
		return &rj.Node{K: rj.Bool, B: true}
	case 2:
		return &rj.Node{K: rj.Bool, B: false}
	case 3, 4:
		return &rj.Node{K: rj.Num, Lit: genNumberLit(g.t)}
	case 5, 6:
		if g.p.KeyAlpha > 0 && rapid.IntRange(0, 2).Draw(g.t, "strfromkeys") == 0 {
			// string values equal to keys and to each other (a serializer stores equal strings once)
			src := []byte(keyAlphabet[rapid.IntRange(0, g.p.KeyAlpha-1).Draw(g.t, "skey")])
			return &rj.Node{K: rj.Str, S: mustDecode(src), Src: src}
		}
		if rapid.IntRange(0, 7).Draw(g.t, "lookalike") == 0 {
			src := []byte(lookalikeStrings[rapid.IntRange(0, len(lookalikeStrings)-1).Draw(g.t, "ls")])
			return &rj.Node{K: rj.Str, S: mustDecode(src), Src: src}
		}
		s, o := genString(g.t, g.p.RichStr)
		return &rj.Node{K: rj.Str, S: o, Src: s}
	case 7, 8:
		return g.container(false, depth+1)
	default:
		return g.container(true, depth+1)
	}
}

// ---------------------------------------------------------------------------------------------
// Rendering with layout control

type layout struct {
	Mode    int    // 0 compact, 1 sparse single white space, 2 pretty, 3 heavy random runs
	Seed    uint64 // drives per-gap choices (deterministic)
	Lead    int    // white space bytes before the document
	Trail   int
	OpenPad int  // white space bytes right after the root's opening bracket
	NoLF    bool // never emit LF/CR (NDJSON lines)
}

// edgeRun: white space before / after the document: mostly 0..3 bytes, now and then a run longer than one or two blocks
func edgeRun(t *rapid.T, label string) int {
	if rapid.IntRange(0, 9).Draw(t, label+"long") == 0 {
		return rapid.IntRange(60, 200).Draw(t, label+"run")
	}
	return rapid.IntRange(0, 3).Draw(t, label)
}

func genLayout(t *rapid.T, nolf bool) layout {
	return layout{
		Mode:    rapid.IntRange(0, 3).Draw(t, "wsmode"),
		Seed:    rapid.Uint64().Draw(t, "wsseed"),
		Lead:    edgeRun(t, "lead"),
		Trail:   edgeRun(t, "trail"),
		OpenPad: rapid.IntRange(0, 70).Draw(t, "openpad"),
		NoLF:    nolf,
	}
}

type tok struct {
	Start, End int
	Kind       byte // '{' '}' '[' ']' ',' ':' 's' (string) 'k' (key) 'n' (number) 'a' (atom)
}

type renderer struct {
	l    layout
	rng  uint64
	out  []byte
	toks []tok
	dep  int
}

func (r *renderer) next() uint64 {
	r.rng += 0x9e3779b97f4a7c15
	z := r.rng
	z = (z ^ (z >> 30)) * 0xbf58476d1ce4e5b9
	z = (z ^ (z >> 27)) * 0x94d049bb133111eb
	return z ^ (z >> 31)
}

func (r *renderer) wsByte() byte {
	if r.l.NoLF {
		return " \t"[r.next()%2]
	}
	return " \t\n\r"[r.next()%4]
}

func (r *renderer) gap(newline bool) {
	switch r.l.Mode {
	case 0:
	case 1:
		if r.next()%3 == 0 {
			r.out = append(r.out, r.wsByte())
		}
	case 2:
		if newline && !r.l.NoLF {
			r.out = append(r.out, '\n')
			for i := 0; i < r.dep; i++ {
				r.out = append(r.out, ' ', ' ')
			}
		} else {
			r.out = append(r.out, ' ')
		}
	case 3:
		x := r.next()
		n := 0
		switch x % 8 {
		case 0, 1, 2:
			n = 0
		case 3, 4:
			n = 1
		case 5:
			n = int(x>>8) % 8
		case 6:
			n = int(x>>8) % 70
		case 7:
			n = int(x>>8) % 140
		}
		for i := 0; i < n; i++ {
			r.out = append(r.out, r.wsByte())
		}
	}
}

func (r *renderer) emit(kind byte, b []byte) {
	s := len(r.out)
	r.out = append(r.out, b...)
	r.toks = append(r.toks, tok{s, len(r.out), kind})
}

func minimalEscape(dst, s []byte) []byte {
	const hexd = "0123456789abcdef"
	for _, c := range s {
		switch {
		case c == '"':
			dst = append(dst, '\\', '"')
		case c == '\\':
			dst = append(dst, '\\', '\\')
		case c < 0x20:
			dst = append(dst, '\\', 'u', '0', '0', hexd[c>>4], hexd[c&15])
		default:
			dst = append(dst, c)
		}
	}
	return dst
}

func (r *renderer) str(kind byte, src, dec []byte) {
	b := make([]byte, 0, len(src)+2)
	b = append(b, '"')
	if src != nil {
		b = append(b, src...)
	} else {
		b = minimalEscape(b, dec)
	}
	b = append(b, '"')
	r.emit(kind, b)
}

func (r *renderer) node(n *rj.Node, root bool) {
	switch n.K {
	case rj.Null:
		r.emit('a', []byte("null"))
	case rj.Bool:
		if n.B {
			r.emit('a', []byte("true"))
		} else {
			r.emit('a', []byte("false"))
		}
	case rj.Num:
		r.emit('n', []byte(n.Lit))
	case rj.Str:
		r.str('s', n.Src, n.S)
	case rj.Arr:
		r.emit('[', []byte{'['})
		if root {
			r.pad(r.l.OpenPad)
		}
		r.dep++
		for i, c := range n.A {
			if i > 0 {
				r.gap(false)
				r.emit(',', []byte{','})
			}
			r.gap(true)
			r.node(c, false)
		}
		r.dep--
		if len(n.A) > 0 {
			r.gap(true)
		}
		r.emit(']', []byte{']'})
	case rj.Obj:
		r.emit('{', []byte{'{'})
		if root {
			r.pad(r.l.OpenPad)
		}
		r.dep++
		for i, m := range n.O {
			if i > 0 {
				r.gap(false)
				r.emit(',', []byte{','})
			}
			r.gap(true)
			r.str('k', m.KeySrc, m.Key)
			r.gap(false)
			r.emit(':', []byte{':'})
			r.gap(false)
			r.node(m.Val, false)
		}
		r.dep--
		if len(n.O) > 0 {
			r.gap(true)
		}
		r.emit('}', []byte{'}'})
	}
}

func (r *renderer) pad(n int) {
	for i := 0; i < n; i++ {
		r.out = append(r.out, r.wsByte())
	}
}

// render returns the JSON text and its token map.
func render(n *rj.Node, l layout) ([]byte, []tok) {
	r := &renderer{l: l, rng: l.Seed}
	r.pad(l.Lead)
	r.node(n, true)
	r.pad(l.Trail)
	return r.out, r.toks
}

func renderCompact(n *rj.Node) []byte {
	b, _ := render(n, layout{})
	return b
}

// ---------------------------------------------------------------------------------------------
// Mutations of a rendered document

var insertPool = []byte{0, 1, 0x1f, '"', '\\', '{', '}', '[', ']', ',', ':', '0', '1', '9', '+', '-', '.', 'e', 'E', 't', 'r', 'u', 'f', 'a', 'l', 's', 'n', 0x7f, 0x80, 0xff, 0xc2, '\v', '\f', ' ', '\n', '\t', '/', 'x'}

var mutKinds = []string{"delByte", "insByte", "replByte", "dropTok", "dupTok", "swapTok", "addSep", "truncate", "leadZero", "breakEscape", "unbalance", "trailing", "atomFollow", "nulInAtom"}

// mutate applies one mutation; returns the new text and the mutation kind.
func mutate(t *rapid.T, text []byte, toks []tok) ([]byte, string) {
	if len(text) == 0 || len(toks) == 0 {
		return append(text, ']'), "trailing"
	}
	k := rapid.IntRange(0, len(mutKinds)-1).Draw(t, "mut")
	kind := mutKinds[k]
	pos := func() int { return rapid.IntRange(0, len(text)-1).Draw(t, "pos") }
	tk := func() tok { return toks[rapid.IntRange(0, len(toks)-1).Draw(t, "tok")] }
	cp := append([]byte(nil), text...)
	switch kind {
	case "delByte":
		p := pos()
		return append(cp[:p], cp[p+1:]...), kind
	case "insByte":
		p := rapid.IntRange(0, len(text)).Draw(t, "ipos")
		b := insertPool[rapid.IntRange(0, len(insertPool)-1).Draw(t, "ib")]
		out := append([]byte(nil), text[:p]...)
		out = append(out, b)
		return append(out, text[p:]...), kind
	case "replByte":
		p := pos()
		cp[p] = insertPool[rapid.IntRange(0, len(insertPool)-1).Draw(t, "ib")]
		return cp, kind
	case "dropTok":
		x := tk()
		return append(cp[:x.Start], cp[x.End:]...), kind
	case "dupTok":
		x := tk()
		out := append([]byte(nil), text[:x.End]...)
		out = append(out, text[x.Start:x.End]...)
		return append(out, text[x.End:]...), kind
	case "swapTok":
		i := rapid.IntRange(0, len(toks)-1).Draw(t, "ti")
		if i+1 >= len(toks) {
			return append(cp, ','), "trailing"
		}
		a, b := toks[i], toks[i+1]
		out := append([]byte(nil), text[:a.Start]...)
		out = append(out, text[b.Start:b.End]...)
		out = append(out, text[a.End:b.Start]...)
		out = append(out, text[a.Start:a.End]...)
		return append(out, text[b.End:]...), kind
	case "addSep":
		x := tk()
		out := append([]byte(nil), text[:x.End]...)
		out = append(out, ",:"[rapid.IntRange(0, 1).Draw(t, "sep")])
		return append(out, text[x.End:]...), kind
	case "truncate":
		return cp[:pos()], kind
	case "leadZero":
		for tries := 0; tries < 8; tries++ {
			x := tk()
			if x.Kind == 'n' {
				out := append([]byte(nil), text[:x.Start]...)
				lit := text[x.Start:x.End]
				if lit[0] == '-' {
					out = append(out, '-', '0')
					out = append(out, lit[1:]...)
				} else {
					out = append(out, '0')
					out = append(out, lit...)
				}
				return append(out, text[x.End:]...), kind
			}
		}
		return append([]byte("[01,"), text...), kind
	case "breakEscape":
		for tries := 0; tries < 8; tries++ {
			x := tk()
			if x.Kind == 's' || x.Kind == 'k' {
				ins := [][]byte{[]byte(`\x`), []byte(`\u12`), []byte(`\u12,4`), []byte(`\uD800`), []byte(`\u00g0`), []byte(`\`), []byte(`\u/234`), []byte("\x01"), []byte(`\U0041`), []byte(`\u 123`)}[rapid.IntRange(0, 9).Draw(t, "be")]
				p := x.Start + 1 + rapid.IntRange(0, x.End-x.Start-2).Draw(t, "bp")
				out := append([]byte(nil), text[:p]...)
				out = append(out, ins...)
				return append(out, text[p:]...), kind
			}
		}
		return append([]byte(`["\x"`), text...), kind
	case "unbalance":
		b := "[]{}"[rapid.IntRange(0, 3).Draw(t, "br")]
		p := rapid.IntRange(0, len(text)).Draw(t, "ipos")
		// snap to a token boundary so that the bracket is not inside a string most of the time
		x := tk()
		if rapid.Bool().Draw(t, "snap") {
			p = x.End
		}
		out := append([]byte(nil), text[:p]...)
		out = append(out, b)
		return append(out, text[p:]...), kind
	case "trailing":
		tails := [][]byte{{0}, []byte(" x"), []byte(",[]"), []byte("[]"), []byte("{}"), []byte(" 1"), []byte("]"), []byte("}"), []byte("\n{}"), {0xef, 0xbb, 0xbf}, []byte(`"`), []byte("\x00\x00"), []byte(" null")}
		tl := tails[rapid.IntRange(0, len(tails)-1).Draw(t, "tail")]
		if rapid.Bool().Draw(t, "front") {
			return append(append([]byte(nil), tl...), text...), kind
		}
		return append(cp, tl...), kind
	case "atomFollow":
		for tries := 0; tries < 8; tries++ {
			x := tk()
			if x.Kind == 'a' || x.Kind == 'n' {
				b := []byte{0, 'x', '"', '0', '.', 'e', '-', '+', 0x80, '\v', 'N', 't'}[rapid.IntRange(0, 11).Draw(t, "fb")]
				out := append([]byte(nil), text[:x.End]...)
				out = append(out, b)
				return append(out, text[x.End:]...), kind
			}
		}
		return append([]byte("[true\x00,"), text...), kind
	default: // nulInAtom: replace one byte of an atom or number
		for tries := 0; tries < 8; tries++ {
			x := tk()
			if x.Kind == 'a' || x.Kind == 'n' {
				p := x.Start + rapid.IntRange(0, x.End-x.Start-1).Draw(t, "ap")
				cp[p] = []byte{0, 'x', 'E', '1', ' ', 'L'}[rapid.IntRange(0, 5).Draw(t, "ab")]
				return cp, kind
			}
		}
		cp[0] = 0
		return cp, kind
	}
}
