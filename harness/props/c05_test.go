package props

import (
	"bytes"
	"encoding/json"
	"fmt"
	"runtime"
	"strings"
	"testing"
	"time"

	simdjson "github.com/minio/simdjson-go"
	"pgregory.net/rapid"

	rj "verifharness/internal/refjson"
)

// C05: no input can crash, hang or produce an untraversable result.
// C06: AVX2 and AVX-512 kernels are observationally identical.

type hostileCase struct {
	In    []byte `json:"in"`
	ND    bool   `json:"nd"`
	Prior []byte `json:"prior,omitempty"` // parsed into the reuse object first (may fail)
	Reuse bool   `json:"reuse"`
	Guard int    `json:"guard"` // 0 heap, 1 input ends at a guard page, 2 input starts after a guard page
}

// deepInterfaceLimit: Interface()/Map() recurse once per nesting level; beyond roughly 500 000 levels the Go stack limit
// (1 GB) is exceeded, which is listed as known finding KF-1. The exerciser therefore skips the recursive
// map/slice builders on documents nested deeper than this, and counts the exclusion.
const deepInterfaceLimit = 150_000

func nestingDepthOfText(in []byte) int {
	d, m := 0, 0
	inStr := false
	for i := 0; i < len(in); i++ {
		c := in[i]
		if inStr {
			if c == '\\' {
				i++
			} else if c == '"' {
				inStr = false
			}
			continue
		}
		switch c {
		case '"':
			inStr = true
		case '[', '{':
			d++
			if d > m {
				m = d
			}
		case ']', '}':
			if d > 0 {
				d--
			}
		}
	}
	return m
}

func goroutineBaseline() int { return runtime.NumGoroutine() }

func waitGoroutines(base int) error {
	deadline := time.Now().Add(30 * time.Second)
	for {
		n := runtime.NumGoroutine()
		if n <= base {
			return nil
		}
		if time.Now().After(deadline) {
			buf := make([]byte, 1<<15)
			k := runtime.Stack(buf, true)
			return fmt.Errorf("goroutines leaked: %d running, baseline %d\n%s", n, base, buf[:k])
		}
		time.Sleep(2 * time.Millisecond)
	}
}

func c05Check(c hostileCase) error {
	crumb("C05", "hostile", c)
	defer clearCrumb()
	stop := watchdog(hangLimit(), "C05 case")
	defer stop()
	depth := nestingDepthOfText(c.In)
	base := goroutineBaseline()
	for _, cfg := range parseCfgs() {
		var g *guardBuf
		in := append([]byte(nil), c.In...)
		if c.Guard != 0 {
			var err error
			g, err = guardPlace(c.In, c.Guard == 1)
			if err != nil {
				return bugf("mmap: %v", err)
			}
			in = g.buf
		}
		var reuse *simdjson.ParsedJson
		if c.Reuse {
			var err error
			reuse, err = simdjson.Parse([]byte(`{"seed":[1,2,"x"]}`), nil)
			if err != nil {
				g.free()
				return bugf("seed parse failed: %v", err)
			}
			if c.Prior != nil {
				var r2 *simdjson.ParsedJson
				perr := noPanic("Parse(prior)", func() {
					withKernel(cfg.avx512, func() {
						r2, _ = simdjson.Parse(append([]byte(nil), c.Prior...), reuse, simdjson.WithCopyStrings(cfg.copy))
					})
				})
				if perr != nil {
					g.free()
					return fmt.Errorf("[%s] %v", cfg, perr)
				}
				if r2 != nil {
					reuse = r2
				}
			}
		}
		var pj *simdjson.ParsedJson
		var err error
		perr := noPanic("Parse", func() {
			withKernel(cfg.avx512, func() {
				if c.ND {
					pj, err = simdjson.ParseND(in, reuse, simdjson.WithCopyStrings(cfg.copy))
				} else {
					pj, err = simdjson.Parse(in, reuse, simdjson.WithCopyStrings(cfg.copy))
				}
			})
		})
		if perr != nil {
			g.free()
			return fmt.Errorf("[%s nd=%v guard=%d] %v\ninput: %q", cfg, c.ND, c.Guard, perr, clip(c.In))
		}
		if (err == nil) == (pj == nil) {
			g.free()
			return fmt.Errorf("[%s nd=%v] Parse returned err=%v and result nil=%v; want exactly one of them", cfg, c.ND, err, pj == nil)
		}
		if err == nil {
			if _, terr := tapeCheck(pj, true); terr != nil {
				g.free()
				return fmt.Errorf("[%s nd=%v] accepted input produced a malformed tape: %v\ninput: %q", cfg, c.ND, terr, clip(c.In))
			}
			opts := exerciseOpts{allowInterface: depth <= deepInterfaceLimit, linearOnly: depth > deepInterfaceLimit}
			if len(pj.Tape) > 5000 {
				opts.maxNodes = 60
			}
			if depth > 2000 {
				opts.maxNodes = 4
			}
			if !opts.allowInterface {
				col("C05").Skip("Interface/Map not exercised: nesting deeper than 150000 (KF-1 region)")
			}
			if eerr := exercise(pj, opts); eerr != nil {
				g.free()
				return fmt.Errorf("[%s nd=%v] traversal of the returned result failed: %v\ninput: %q", cfg, c.ND, eerr, clip(c.In))
			}
		}
		if !bytes.Equal(in, c.In) {
			g.free()
			return fmt.Errorf("[%s nd=%v] Parse modified its input", cfg, c.ND)
		}
		g.free()
	}
	if err := waitGoroutines(base); err != nil {
		return err
	}
	return nil
}

var c05Run = register("C05", "hostile", c05Check)

// c05Deep is the replay kind for known finding KF-1: Interface() on extreme nesting overflows the stack (fatal).
type deepCase struct {
	Depth int  `json:"depth"`
	Obj   bool `json:"obj"`
}

var _ = register("C05", "deepInterface", func(c deepCase) error {
	in := strings.Repeat("[", c.Depth) + strings.Repeat("]", c.Depth)
	if c.Obj {
		in = strings.Repeat(`{"a":`, c.Depth) + "1" + strings.Repeat("}", c.Depth)
	}
	pj, err := simdjson.Parse([]byte(in), nil)
	if err != nil {
		return fmt.Errorf("deep document rejected: %v", err)
	}
	it := pj.Iter()
	_, err = it.Interface() // a stack overflow here is fatal: the replay process dies, which the driver reads as "reproduced"
	_ = err
	return nil
})

func c06Check(c hostileCase) error {
	if !hasAVX512 {
		return bugf("host has no AVX-512: nothing to compare")
	}
	for _, cp := range []bool{true, false} {
		var pa, pb *simdjson.ParsedJson
		var ea, eb error
		pa, ea = parseWithND(parseCfg{avx512: true, copy: cp}, append([]byte(nil), c.In...), c.ND)
		pb, eb = parseWithND(parseCfg{avx512: false, copy: cp}, append([]byte(nil), c.In...), c.ND)
		if (ea == nil) != (eb == nil) {
			return fmt.Errorf("[copy=%v nd=%v] AVX-512 kernel: err=%v; AVX2 kernel: err=%v\ninput: %q", cp, c.ND, ea, eb, clip(c.In))
		}
		if ea != nil {
			continue
		}
		if len(pa.Tape) != len(pb.Tape) {
			return fmt.Errorf("[copy=%v nd=%v] tape lengths differ: avx512 %d, avx2 %d\ninput: %q", cp, c.ND, len(pa.Tape), len(pb.Tape), clip(c.In))
		}
		for i := range pa.Tape {
			if pa.Tape[i] != pb.Tape[i] {
				return fmt.Errorf("[copy=%v nd=%v] tape[%d] differs: avx512 %#x, avx2 %#x\ninput: %q", cp, c.ND, i, pa.Tape[i], pb.Tape[i], clip(c.In))
			}
		}
		if !bytes.Equal(pa.Strings.B, pb.Strings.B) {
			return fmt.Errorf("[copy=%v nd=%v] string buffers differ\ninput: %q", cp, c.ND, clip(c.In))
		}
	}
	return nil
}

func parseWithND(cfg parseCfg, in []byte, nd bool) (*simdjson.ParsedJson, error) {
	return parseWith(cfg, in, nd)
}

var c06Run = register("C06", "differential", c06Check)

// ---------------------------------------------------------------------------------------------
// Hostile input generators

var soupAlphabet = []byte("[]{},:\"\\0123456789-+.eEtrufalsn \t\n\r\x00\x01\x1f\x7f\x80\xc3\xa9\xff/bx")

var densePatterns = []string{"[", "]", "[]", "[],", "{\"\":", "{}", "1,", ",", ":", "\"\"", "\"\",", "[1,", "{\"a\":1,", "}", "\\\"", "\"\\\\\",", "[[],", "n", "true,", " [", "\n[]"}

func genHostile(t *rapid.T) ([]byte, string) {
	switch rapid.IntRange(0, 12).Draw(t, "hkind") {
	case 12: // byte-level mutation of a document that spans several index buffers
		text, _ := genShape(t)
		if len(text) > 300_000 {
			text = append(append([]byte(nil), text[:300_000]...), ']')
		}
		out, _ := mutateBytes(t, text)
		return out, "mutated-doc"
	case 0: // uniform random bytes
		return rapid.SliceOfN(rapid.Byte(), 0, 300).Draw(t, "bytes"), "random-bytes"
	case 1: // token soup
		n := rapid.IntRange(0, 600).Draw(t, "n")
		seed := rapid.Uint64().Draw(t, "soup")
		b := make([]byte, n)
		for i := range b {
			seed = seed*6364136223846793005 + 1442695040888963407
			b[i] = soupAlphabet[(seed>>33)%uint64(len(soupAlphabet))]
		}
		return b, "token-soup"
	case 2, 3, 4: // mutated valid document
		p := pickProfile(t)
		d := genDoc(t, p)
		text, toks := render(d, genLayout(t, false))
		nm := rapid.IntRange(0, 5).Draw(t, "nmut")
		for i := 0; i < nm; i++ {
			text, _ = mutate(t, text, toks)
			toks = retokenize(toks, len(text))
		}
		return text, "mutated-doc"
	case 5: // truncation of a valid document / shape
		text, _ := genAnyDoc(t)
		if len(text) > 0 {
			text = text[:rapid.IntRange(0, len(text)).Draw(t, "cut")]
		}
		return text, "truncated"
	case 6: // dense structural runs around the 8 KiB threshold and block multiples
		pat := densePatterns[rapid.IntRange(0, len(densePatterns)-1).Draw(t, "pat")]
		var total int
		switch rapid.IntRange(0, 3).Draw(t, "lenkind") {
		case 0:
			total = rapid.IntRange(8000, 8400).Draw(t, "len")
		case 1:
			total = 64*rapid.IntRange(1, 200).Draw(t, "blocks") + rapid.IntRange(-1, 1).Draw(t, "d")
		case 2:
			total = rapid.IntRange(1, 700).Draw(t, "len")
		default:
			total = rapid.IntRange(8193, 60000).Draw(t, "len")
		}
		if total < 1 {
			total = 1
		}
		b := []byte(strings.Repeat(pat, total/len(pat)+1))[:total]
		if rapid.Bool().Draw(t, "close") && len(b) > 2 {
			b[0] = '['
			b[len(b)-1] = ']'
		}
		return b, "dense"
	case 7: // balanced dense: valid documents with the maximum structural density
		n := rapid.IntRange(1, 12000).Draw(t, "n")
		switch rapid.IntRange(0, 2).Draw(t, "bk") {
		case 0:
			return []byte(strings.Repeat("[", n) + strings.Repeat("]", n)), "dense-valid"
		case 1:
			return []byte("[" + strings.Repeat("[],", n) + "[]]"), "dense-valid"
		default:
			return []byte("[" + strings.Repeat("1,", n) + "1]"), "dense-valid"
		}
	case 8: // deep nesting, valid or cut
		maxD := 20_000
		if thorough() {
			maxD = 1_000_000
		}
		d := rapid.IntRange(1000, maxD).Draw(t, "depth")
		if thorough() && rapid.IntRange(0, 9).Draw(t, "verydeep") != 0 {
			d = 1000 + d%50_000 // most deep cases stay moderate; one in ten goes up to a million levels
		}
		var s string
		if rapid.Bool().Draw(t, "obj") {
			s = strings.Repeat(`{"a":`, d) + "1" + strings.Repeat("}", d)
		} else {
			s = strings.Repeat("[", d) + strings.Repeat("]", d)
		}
		if rapid.IntRange(0, 3).Draw(t, "cutdeep") == 0 {
			s = s[:rapid.IntRange(0, len(s)).Draw(t, "cut")]
		}
		return []byte(s), "deep"
	case 9: // sizes around internal boundaries with a string straddling the end
		total := []int{63, 64, 65, 127, 128, 129, 447, 448, 449, 511, 512, 513, 575, 576, 577, 8191, 8192, 8193}[rapid.IntRange(0, 17).Draw(t, "size")]
		body := total - 4
		if body < 0 {
			body = 0
		}
		s := `["` + strings.Repeat("s", body) + `"]`
		b := []byte(s)
		if rapid.Bool().Draw(t, "esc") && len(b) > 6 {
			p := rapid.IntRange(2, len(b)-3).Draw(t, "escpos")
			b[p] = '\\'
		}
		if rapid.Bool().Draw(t, "unterminated") {
			b = b[:len(b)-rapid.IntRange(1, 2).Draw(t, "chop")]
		}
		return b, "boundary-size"
	case 10: // NDJSON-ish
		n := rapid.IntRange(1, 40).Draw(t, "lines")
		var b bytes.Buffer
		for i := 0; i < n; i++ {
			switch rapid.IntRange(0, 5).Draw(t, "lk") {
			case 0:
				b.WriteString("\n")
			case 1:
				b.WriteString("[1,2]\r\n")
			case 2:
				b.WriteString(`{"a":"b\n"}` + "\n")
			case 3:
				b.WriteString("[1,\n2]\n")
			case 4:
				b.WriteString(`{"a":}` + "\n")
			default:
				b.WriteString(" \t\n")
			}
		}
		return b.Bytes(), "ndjson-ish"
	default: // valid document (the exerciser then runs on a real result)
		text, _ := genAnyDoc(t)
		return text, "valid"
	}
}

func hostileNontrivial(in []byte, class string) bool {
	if class == "mutated-doc" || class == "truncated" || class == "valid" || class == "dense-valid" {
		return true
	}
	return structuralCount(in) >= 2
}

func c05Eval(tb fataler, c hostileCase, class string) {
	c05Run(tb, c)
	cl := col("C05")
	v, _ := rj.Classify(c.In)
	cls := []string{"gen:" + class, fmt.Sprintf("guard:%d", c.Guard), boolClass("nd", c.ND), boolClass("reuse", c.Reuse), "oracle:" + v.String()}
	cls = append(cls, boundaryClasses(c.In)...)
	var extra []byte
	if c.ND {
		extra = append(extra, 1)
	}
	cl.Eval(hostileNontrivial(c.In, class), evidHash(c.In, extra), cls...)
	cl.Sample(func() interface{} {
		return map[string]interface{}{"input": clip(c.In), "len": len(c.In), "nd": c.ND, "reuse": c.Reuse, "guard": c.Guard, "gen": class}
	})
}

func TestC05_Hostile(t *testing.T) {
	runRapid(t, "C05_Hostile", nCases(60_000, 1_000_000), func(t *rapid.T) {
		in, class := genHostile(t)
		c := hostileCase{In: in, ND: rapid.IntRange(0, 3).Draw(t, "nd") == 0, Guard: rapid.IntRange(0, 2).Draw(t, "guard")}
		if rapid.IntRange(0, 3).Draw(t, "reuse") == 0 {
			c.Reuse = true
			if rapid.Bool().Draw(t, "prior") {
				c.Prior, _ = genHostile(t)
				if len(c.Prior) > 20000 {
					c.Prior = c.Prior[:20000]
				}
			}
		}
		c05Eval(t, c, class)
	})
	col("C05").Completed("TestC05_Hostile")
}

// TestC05_DenseSweep: every length 8000..8400 (and 64n) of maximally dense structural runs: these decide how many index
// buffers an input needs on the synchronous (<= 8 KiB) path, where stage 1 completes before stage 2 starts.
func TestC05_DenseSweep(t *testing.T) {
	idx := 0
	lens := []int{}
	for l := 8000; l <= 8400; l++ {
		lens = append(lens, l)
	}
	for n := 1; n <= 160; n++ {
		lens = append(lens, 64*n-1, 64*n, 64*n+1)
	}
	for pi, pat := range densePatterns {
		for _, l := range lens {
			if !thorough() && (l+pi)%4 != 0 {
				continue
			}
			idx++
			if idx%envNShards != envShard {
				continue
			}
			b := []byte(strings.Repeat(pat, l/len(pat)+1))[:l]
			c05Eval(t, hostileCase{In: b, Guard: idx % 3, ND: idx%5 == 0}, "dense-sweep")
			if len(b) > 2 {
				b2 := append([]byte(nil), b...)
				b2[0], b2[len(b2)-1] = '[', ']'
				c05Eval(t, hostileCase{In: b2, Guard: (idx + 1) % 3, Reuse: idx%7 == 0}, "dense-sweep")
			}
		}
	}
	col("C05").Completed("TestC05_DenseSweep")
}

func TestC06_Differential(t *testing.T) {
	runRapid(t, "C06_Differential", nCases(400_000, 10_000_000), func(t *rapid.T) {
		var in []byte
		var class string
		if rapid.IntRange(0, 4).Draw(t, "src") == 0 {
			in, class = genCarry(t)
		} else {
			in, class = genHostile(t)
		}
		if len(in) > 300_000 {
			in = in[:300_000]
		}
		c := hostileCase{In: in, ND: rapid.IntRange(0, 2).Draw(t, "nd") == 0}
		c06Run(t, c)
		cl := col("C06")
		accepted := false
		if pj, err := simdjson.Parse(append([]byte(nil), in...), nil); err == nil && pj != nil {
			accepted = true
		}
		nt := (len(in) >= 65 || len(in)%64 != 0) && (accepted || class == "mutated-doc" || class == "truncated" || class == "carry")
		var extra []byte
		if c.ND {
			extra = []byte{1}
		}
		cl.Eval(nt, evidHash(in, extra), "gen:"+class, boolClass("nd", c.ND), boolClass("accepted", accepted))
		cl.Sample(func() interface{} {
			return map[string]interface{}{"input": clip(in), "len": len(in), "nd": c.ND, "gen": class}
		})
	})
	col("C06").Completed("TestC06_Differential")
}

// genCarry builds inputs that stress state carried between 64-byte blocks: quotes, backslash runs and
// pseudo-structural predecessors at offsets 63/64, and a partial last block of every length.
func genCarry(t *rapid.T) ([]byte, string) {
	if rapid.IntRange(0, 3).Draw(t, "rollover") == 0 {
		// the same features right where stage 1 fills an index buffer (1408 indexes) and starts the next one
		tok := []string{"0,", "[],", `"",`, "1, "}[rapid.IntRange(0, 3).Draw(t, "tok")]
		per := structuralsOf(tok)
		n := 1408*rapid.IntRange(1, 3).Draw(t, "bufs")/per + rapid.IntRange(-12, 12).Draw(t, "dk")
		feat := []string{`"a\\"`, `"\\\""`, `"\\\\"`, `"x\"y"`, `"a\nb"`, `"é"`, `true`, `"a`, `\\`, "\n", `{"k":1}`, `"\\`, `12e3`}[rapid.IntRange(0, 12).Draw(t, "feat")]
		b := "[" + strings.Repeat(tok, n) + strings.Repeat(" ", rapid.IntRange(0, 63).Draw(t, "pad")) + feat + `,"` + strings.Repeat("z", rapid.IntRange(0, 130).Draw(t, "tail")) + `"]`
		return []byte(b), "carry"
	}
	blocks := rapid.IntRange(1, 6).Draw(t, "blocks")
	tail := rapid.IntRange(0, 63).Draw(t, "tail")
	n := blocks*64 + tail
	b := bytes.Repeat([]byte{' '}, n)
	b[0] = '['
	b[n-1] = ']'
	// place features at block edges
	nf := rapid.IntRange(1, 6).Draw(t, "features")
	for i := 0; i < nf; i++ {
		edge := 64 * rapid.IntRange(1, blocks).Draw(t, "edge")
		pos := edge + rapid.IntRange(-3, 2).Draw(t, "d")
		feat := []string{`"a"`, `"\\"`, `"\""`, `\\\\`, `"x`, `x"`, `1,2`, `true`, `,`, `"a\nb"`, `\\"`, `""`, `[]`, `{"k":1}`, "\n", `"é"`, `12e3`, `nul`, `l,`}[rapid.IntRange(0, 18).Draw(t, "feat")]
		if pos < 1 {
			pos = 1
		}
		for j := 0; j < len(feat) && pos+j < n-1; j++ {
			b[pos+j] = feat[j]
		}
	}
	if rapid.Bool().Draw(t, "longstr") {
		// one long string spanning several blocks
		s := rapid.IntRange(1, n/2).Draw(t, "s0")
		e := rapid.IntRange(s+1, n-2).Draw(t, "s1")
		if e > s && e < n-1 {
			for j := s; j <= e; j++ {
				if b[j] == '"' || b[j] == '\n' {
					b[j] = 'q'
				}
			}
			b[s], b[e] = '"', '"'
		}
	}
	return b, "carry"
}

// TestC05_LongTailToken: a dense prefix of about m x 1408 structurals followed by one long final token that runs to the end
// of the input (unterminated or closed string, long number, garbage word): the token is the index stage 1 strips from a
// full index buffer and carries over, and nothing but its continuation follows.
func TestC05_LongTailToken(t *testing.T) {
	idx := 0
	tails := []string{`"` + strings.Repeat("s", 200), `"` + strings.Repeat("s", 120) + `"`, strings.Repeat("7", 150), strings.Repeat("x", 90), `"` + strings.Repeat("q", 70) + `"]`, `tru` + strings.Repeat("e", 80)}
	for m := 1; m <= 3; m++ {
		for dk := -4; dk <= 4; dk++ {
			for pad := 0; pad < 64; pad++ {
				if !thorough() && (pad+dk+m)%2 != 0 {
					continue
				}
				for ti, tail := range tails {
					idx++
					if idx%envNShards != envShard {
						continue
					}
					in := []byte("[" + strings.Repeat("1,", 704*m-1+dk) + strings.Repeat(" ", pad) + tail)
					c05Eval(t, hostileCase{In: in, ND: (idx+ti)%4 == 0, Guard: idx % 3}, "long-tail-token")
				}
			}
		}
	}
	col("C05").Completed("TestC05_LongTailToken")
}

// ---------------------------------------------------------------------------------------------
// C06 on call chains: the same sequence of inputs parsed one after the other, each call reusing the previous result,
// once per kernel family. Which family runs must not show in any step's outcome - also not through state that a family
// keeps on the reused object between calls.

type c06Chain struct {
	Ins  [][]byte `json:"ins"`
	ND   bool     `json:"nd"`
	Copy bool     `json:"copy"`
}

func c06ChainCheck(c c06Chain) error {
	if !hasAVX512 {
		return bugf("host has no AVX-512: nothing to compare")
	}
	type outcome struct {
		err  error
		tape []uint64
		strs []byte
	}
	run := func(avx512 bool) []outcome {
		var outs []outcome
		var prev *simdjson.ParsedJson
		withKernel(avx512, func() {
			for _, in := range c.Ins {
				var pj *simdjson.ParsedJson
				var err error
				if c.ND {
					pj, err = simdjson.ParseND(append([]byte(nil), in...), prev, simdjson.WithCopyStrings(c.Copy))
				} else {
					pj, err = simdjson.Parse(append([]byte(nil), in...), prev, simdjson.WithCopyStrings(c.Copy))
				}
				o := outcome{err: err}
				if err == nil {
					o.tape = append([]uint64(nil), pj.Tape...)
					o.strs = append([]byte(nil), pj.Strings.B...)
					prev = pj
				}
				outs = append(outs, o)
			}
		})
		return outs
	}
	a, b := run(true), run(false)
	for i := range c.Ins {
		where := fmt.Sprintf("call %d of a chain of %d reusing the previous result (copy=%v nd=%v, %d bytes %q)", i, len(c.Ins), c.Copy, c.ND, len(c.Ins[i]), clip(c.Ins[i]))
		if (a[i].err == nil) != (b[i].err == nil) {
			return fmt.Errorf("%s: AVX-512 kernel: err=%v; AVX2 kernel: err=%v", where, a[i].err, b[i].err)
		}
		if a[i].err != nil {
			continue
		}
		if len(a[i].tape) != len(b[i].tape) {
			return fmt.Errorf("%s: tape lengths differ: avx512 %d, avx2 %d", where, len(a[i].tape), len(b[i].tape))
		}
		for k := range a[i].tape {
			if a[i].tape[k] != b[i].tape[k] {
				return fmt.Errorf("%s: tape[%d] differs: avx512 %#x, avx2 %#x", where, k, a[i].tape[k], b[i].tape[k])
			}
		}
		if !bytes.Equal(a[i].strs, b[i].strs) {
			return fmt.Errorf("%s: string buffers differ", where)
		}
	}
	return nil
}

var c06ChainRun = register("C06", "chain", c06ChainCheck)

func TestC06_Chains(t *testing.T) {
	runRapid(t, "C06_Chains", nCases(60_000, 1_200_000), func(t *rapid.T) {
		var c c06Chain
		n := rapid.IntRange(2, 4).Draw(t, "nins")
		for i := 0; i < n; i++ {
			var in []byte
			switch rapid.IntRange(0, 5).Draw(t, "src") {
			case 0:
				in, _ = genCarry(t)
			case 1, 2:
				// dense documents whose length and index count sit on the internal boundaries: k x 1408 +- 2 structurals,
				// total length a multiple of 64 or one off
				tok := []string{"1,", "[],", `"",`}[rapid.IntRange(0, 2).Draw(t, "tok")]
				per := structuralsOf(tok)
				cnt := (1408*rapid.IntRange(1, 3).Draw(t, "k")+rapid.IntRange(-2, 2).Draw(t, "d"))/per - 1
				body := "[" + strings.Repeat(tok, cnt)
				tail := "22]"
				pad := (64 - (len(body)+len(tail))%64) % 64
				pad += rapid.IntRange(-1, 1).Draw(t, "off")
				if pad < 0 {
					pad = 0
				}
				in = []byte(body + strings.Repeat(" ", pad) + tail)
			default:
				in, _ = genHostile(t)
			}
			if len(in) > 100_000 {
				in = in[:100_000]
			}
			c.Ins = append(c.Ins, in)
		}
		c.ND = rapid.IntRange(0, 3).Draw(t, "nd") == 0
		c.Copy = rapid.Bool().Draw(t, "copy")
		c06ChainRun(t, c)
		b, _ := json.Marshal(c)
		col("C06").Eval(true, evidHash(b), "kind:chain", fmt.Sprintf("chain:%d", len(c.Ins)))
	})
	col("C06").Completed("TestC06_Chains")
}
