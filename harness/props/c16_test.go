package props

import (
	"bytes"
	"encoding/json"
	"fmt"
	"io"
	"strings"
	"testing"
	"time"

	simdjson "github.com/minio/simdjson-go"
	"pgregory.net/rapid"

	rj "verifharness/internal/refjson"
)

// C16: copied strings decouple results from the input buffer; Clone is independent.

type c16Overwrite struct {
	Doc   []byte `json:"doc"`
	ND    bool   `json:"nd"`
	How   int    `json:"how"`   // 0 zeros, 1 0xff, 2 another valid document, 3 bytes reversed, 4 every byte +1
	Pad   int    `json:"pad"`   // extra capacity behind the input (the slice handed to Parse is a window into a larger buffer)
	Lead  int    `json:"lead"`  // bytes before the window
	Prior bool   `json:"prior"` // parse into an object that an earlier no-copy Parse returned, with default options
}

// observeAll renders everything observable through read, marshal and serialize APIs.
func observeAll(pj *simdjson.ParsedJson) ([]byte, error) {
	var out []byte
	for _, w := range allWalkers {
		b, err := w.fn(pj)
		if err != nil {
			return nil, fmt.Errorf("%s: %v", w.name, err)
		}
		out = append(out, w.name...)
		out = append(out, '=')
		out = append(out, b...)
		out = append(out, 0)
	}
	it := pj.Iter()
	m, err := it.MarshalJSON()
	if err != nil {
		return nil, fmt.Errorf("MarshalJSON: %v", err)
	}
	out = append(out, "marshal="...)
	out = append(out, m...)
	out = append(out, 0)
	s := simdjson.NewSerializer()
	s.CompressMode(simdjson.CompressNone)
	back, err := s.Deserialize(s.Serialize(nil, *pj), nil)
	if err != nil {
		return nil, fmt.Errorf("serialize round trip: %v", err)
	}
	b, err := walkW1(back)
	if err != nil {
		return nil, fmt.Errorf("serialize round trip: %v", err)
	}
	out = append(out, "serialized="...)
	out = append(out, b...)
	return out, nil
}

func c16OverwriteCheck(c c16Overwrite) error {
	roots, err := parseModelRoots(c.Doc, c.ND)
	if err != nil {
		return err
	}
	mc := func(o canonOpts) []byte { return modelCanonAll(roots, o) }
	parse := func(in []byte, copyStrings bool) (*simdjson.ParsedJson, error) {
		if c.ND {
			return simdjson.ParseND(in, nil, simdjson.WithCopyStrings(copyStrings))
		}
		return simdjson.Parse(in, nil, simdjson.WithCopyStrings(copyStrings))
	}
	// the input is a window into a larger buffer, as with a reused read buffer
	backing := make([]byte, c.Lead+len(c.Doc)+c.Pad)
	for i := range backing {
		backing[i] = ' '
	}
	in := backing[c.Lead : c.Lead+len(c.Doc)]
	copy(in, c.Doc)
	var pj *simdjson.ParsedJson
	if c.Prior {
		// the object was used before, with string copying switched off; this call relies on the default (copy)
		prev, perr := simdjson.Parse([]byte(`{"earlier":["document","parsed","without","copying"],"k":"v"}`), nil, simdjson.WithCopyStrings(false))
		if perr != nil {
			return bugf("%v", perr)
		}
		if c.ND {
			pj, err = simdjson.ParseND(in, prev)
		} else {
			pj, err = simdjson.Parse(in, prev)
		}
	} else {
		pj, err = parse(in, true)
	}
	if err != nil {
		return fmt.Errorf("valid document rejected: %v", err)
	}
	before, err := observeAll(pj)
	if err != nil {
		return fmt.Errorf("before overwriting: %v", err)
	}
	if err := compareWalkers(pj, allWalkers, mc); err != nil {
		return fmt.Errorf("copy mode, before overwriting: %v", err)
	}
	// overwrite the whole backing buffer
	switch c.How % 5 {
	case 0:
		for i := range backing {
			backing[i] = 0
		}
	case 1:
		for i := range backing {
			backing[i] = 0xff
		}
	case 2:
		other := []byte(`{"other":["document","with","strings",1,2,3],"k":"` + string(bytes.Repeat([]byte("z"), 40)) + `"}`)
		for i := range backing {
			backing[i] = other[i%len(other)]
		}
	case 3:
		for i, j := 0, len(backing)-1; i < j; i, j = i+1, j-1 {
			backing[i], backing[j] = backing[j], backing[i]
		}
	default:
		for i := range backing {
			backing[i]++
		}
	}
	after, err := observeAll(pj)
	if err != nil {
		return fmt.Errorf("after overwriting the input buffer the result is no longer readable: %v", err)
	}
	if !bytes.Equal(before, after) {
		return fmt.Errorf("overwriting the input buffer changed what the result exposes: %s", diffCanon(before, after))
	}
	if err := compareWalkers(pj, allWalkers, mc); err != nil {
		return fmt.Errorf("copy mode, after overwriting: %v", err)
	}
	// no-copy mode on an intact input exposes the identical document
	in2 := append([]byte(nil), c.Doc...)
	pj2, err := parse(in2, false)
	if err != nil {
		return fmt.Errorf("no-copy mode rejects the document: %v", err)
	}
	if err := compareWalkers(pj2, allWalkers, mc); err != nil {
		return fmt.Errorf("no-copy mode (input intact): %v", err)
	}
	// both results are independent of what the process does next with OTHER objects: unrelated calls on fresh objects
	// (short and long documents, both string modes, Parse and ParseND, a rejected document, a serialize round trip)
	{
		short := []byte(`{"unrelated":"short document","x":["y\n",1]}`)
		long := []byte(`{"unrelated":"` + strings.Repeat("long document ", 60) + `","x":["y\n",1,` + strings.Repeat(`"zzzz",`, 80) + `2]}`)
		for k, u := range [][]byte{short, long, short} {
			up, uerr := simdjson.Parse(append([]byte(nil), u...), nil, simdjson.WithCopyStrings(k%2 == 0))
			if uerr != nil {
				return bugf("unrelated document rejected: %v", uerr)
			}
			us := simdjson.NewSerializer()
			if _, uerr = us.Deserialize(us.Serialize(nil, *up), nil); uerr != nil {
				return bugf("unrelated round trip failed: %v", uerr)
			}
			_, _ = simdjson.ParseND(append(append(append([]byte(nil), u...), '\n'), u...), nil, simdjson.WithCopyStrings(k%2 == 1))
			_, _ = simdjson.Parse([]byte(`{"unrelated":[1,2}`), nil)
		}
		if err := compareWalkers(pj, allWalkers, mc); err != nil {
			return fmt.Errorf("copy mode, after unrelated calls on other objects: %v", err)
		}
		if err := compareWalkers(pj2, allWalkers, mc); err != nil {
			return fmt.Errorf("no-copy mode (input intact), after unrelated calls on other objects: %v", err)
		}
		// a call without any option copies strings (the documented default), whatever options other calls in the
		// process have used: its result survives the recycling of its input
		in5 := append([]byte(nil), c.Doc...)
		var pj5 *simdjson.ParsedJson
		if c.ND {
			pj5, err = simdjson.ParseND(in5, nil)
		} else {
			pj5, err = simdjson.Parse(in5, nil)
		}
		if err != nil {
			return fmt.Errorf("call without options rejects the document: %v", err)
		}
		for i := range in5 {
			in5[i] = '%'
		}
		if err := compareWalkers(pj5, allWalkers, mc); err != nil {
			return fmt.Errorf("call without options (default: copy strings) after other calls had switched copying off; input recycled: %v", err)
		}
	}
	// the same with a ParsedJson that served another no-copy parse before, read through accessor destinations
	// (Iter.Object(dst), Iter.Array(dst)) that were used on that earlier document
	{
		st := &w1State{}
		prevIn := []byte(`{"earlier":["document","parsed","without","copying",{"deeper":{"k":["v","w"]}}],"k":"v","a":[[["x"]]]}`)
		prev, perr := simdjson.Parse(prevIn, nil, simdjson.WithCopyStrings(false))
		if perr != nil {
			return bugf("%v", perr)
		}
		if _, err := walkW1State(prev, st); err != nil {
			return bugf("%v", err)
		}
		in4 := append([]byte(nil), c.Doc...)
		var pj4 *simdjson.ParsedJson
		if c.ND {
			pj4, err = simdjson.ParseND(in4, prev, simdjson.WithCopyStrings(false))
		} else {
			pj4, err = simdjson.Parse(in4, prev, simdjson.WithCopyStrings(false))
		}
		if err != nil {
			return fmt.Errorf("no-copy mode into a reused object rejects the document: %v", err)
		}
		got, err := walkW1State(pj4, st)
		if err != nil {
			return fmt.Errorf("no-copy mode into a reused object, recycled Object/Array destinations (input intact): %v", err)
		}
		if want := mc(canonOpts{}); !bytes.Equal(got, want) {
			return fmt.Errorf("no-copy mode into a reused object, recycled Object/Array destinations (input intact): %s", diffCanon(want, got))
		}
	}
	// what the caller took out while the input was intact stays its own: Go strings and interface{} trees are values
	it0 := pj2.Iter()
	taken, terr := it0.Interface()
	if terr != nil {
		return fmt.Errorf("no-copy mode Interface(): %v", terr)
	}
	var keys [][]byte
	var strs []string
	{
		ki := pj2.Iter()
		for {
			tag := ki.AdvanceInto()
			if tag == simdjson.TagEnd {
				break
			}
			if tag == simdjson.TagString {
				s, _ := ki.String()
				strs = append(strs, s)
				b, _ := ki.StringBytes()
				keys = append(keys, append([]byte(nil), b...))
			}
		}
	}
	it := pj2.Iter()
	m2, err := it.MarshalJSON()
	if err != nil {
		return fmt.Errorf("no-copy mode MarshalJSON: %v", err)
	}
	copy(in, c.Doc) // restore and re-parse in copy mode for the marshal comparison
	pj3, err := parse(append([]byte(nil), c.Doc...), true)
	if err != nil {
		return err
	}
	it3 := pj3.Iter()
	m3, _ := it3.MarshalJSON()
	if !bytes.Equal(m2, m3) {
		return fmt.Errorf("marshalled text differs between copy and no-copy mode: %q vs %q", clip(m3), clip(m2))
	}
	if !bytes.Equal(in2, c.Doc) {
		return fmt.Errorf("Parse modified its input in no-copy mode")
	}
	// iteration is over: the caller recycles the input buffer of the no-copy parse
	for i := range in2 {
		in2[i] = '#'
	}
	for i := range strs {
		if strs[i] != string(keys[i]) {
			return fmt.Errorf("no-copy mode: a string returned by Iter.String() changed after the input buffer was recycled: now %q, was %q", clipS(strs[i]), clip(keys[i]))
		}
	}
	var tc []byte
	if roots, ok := taken.([]interface{}); ok {
		for i, r := range roots {
			if i > 0 {
				tc = append(tc, '\n')
			}
			tc = canonIface(tc, r)
		}
	}
	if want := mc(canonOpts{noFlags: true, mapMode: true}); !bytes.Equal(tc, want) {
		return fmt.Errorf("no-copy mode: the value returned by Interface() changed after the input buffer was recycled: %s", diffCanon(want, tc))
	}
	return nil
}

var c16OverwriteRun = register("C16", "overwrite", c16OverwriteCheck)

// ---- clones ----

type c16CloneStep struct {
	Who int    `json:"who"` // 0 original, 1 clone into nil, 2 clone into a reused destination, 3 clone into a zero-value destination
	Op  editOp `json:"op"`
}

type c16Clones struct {
	Doc   []byte         `json:"doc"`
	ND    bool           `json:"nd"`
	Copy  bool           `json:"copy"`
	Pre   []editOp       `json:"pre"` // edits applied to the original before cloning
	Steps []c16CloneStep `json:"steps"`
}

func c16ClonesCheck(c c16Clones) error {
	resetHistSer()
	pj, roots, err := buildEdited(historyCase{Doc: c.Doc, ND: c.ND, Copy: c.Copy, Ops: c.Pre})
	if err != nil {
		return err
	}
	// destination that has been used for something larger / different before
	old, err := simdjson.Parse([]byte(`{"previous":["content","of","the","destination",1,2,3,4,5,6,7,8,9,10,11,12,13,14,15,16,17,18,19,20]}`), nil)
	if err != nil {
		return bugf("%v", err)
	}
	// ... and that has itself been a Clone destination for a large, then a small document before (lengths of a recycled
	// destination shrink and grow)
	for _, prev := range []string{`{"big":[` + strings.Repeat(`"0123456789abcdef",17,`, 40) + `null]}`, `[1]`} {
		if pp, perr := simdjson.Parse([]byte(prev), nil); perr == nil {
			old = pp.Clone(old)
		}
	}
	objs := []*simdjson.ParsedJson{pj, pj.Clone(nil), pj.Clone(old), pj.Clone(&simdjson.ParsedJson{})}
	models := [][]*rj.Node{roots, cloneRoots(roots), cloneRoots(roots), cloneRoots(roots)}
	names := []string{"original", "clone(nil)", "clone(reused dst)", "clone(zero-value dst)"}
	checkAll := func(when string) error {
		for i := range objs {
			if err := checkAgainstModel(objs[i], models[i], c.ND, fullInvariants); err != nil {
				return fmt.Errorf("%s: %s no longer matches its own document: %v", when, names[i], err)
			}
		}
		return nil
	}
	if err := checkAll("right after cloning"); err != nil {
		return err
	}
	for i, st := range c.Steps {
		w := st.Who % len(objs)
		wantErr, _, err := applyModel(models[w], st.Op)
		if err != nil {
			return err
		}
		apiErr, _, err := applyReal(objs[w], models[w], st.Op)
		if err != nil {
			return fmt.Errorf("step %d on %s (%v): %v", i, names[w], st.Op, err)
		}
		if wantErr != (apiErr != nil) {
			return fmt.Errorf("step %d on %s (%v): error expectation %v, got %v", i, names[w], st.Op, wantErr, apiErr)
		}
		if err := checkAll(fmt.Sprintf("after step %d (%v on %s)", i, st.Op, names[w])); err != nil {
			return err
		}
	}
	// the original (and the other clones) survive a CLONE being recycled as the reuse argument of a later parse
	if _, err := simdjson.Parse([]byte(`{"recycled":["a","clone","\n\t\u00e9",54321,"`+string(bytes.Repeat([]byte("c"), 300))+`"]}`), objs[1]); err != nil {
		return bugf("recycling parse failed: %v", err)
	}
	for _, i := range []int{0, 2, 3} {
		if err := checkAgainstModel(objs[i], models[i], c.ND, fullInvariants); err != nil {
			return fmt.Errorf("after clone(nil) was recycled by a later Parse: %s no longer matches its document: %v", names[i], err)
		}
	}
	// a deep clone survives the original being recycled as the reuse argument of a later parse
	if _, err := simdjson.Parse([]byte(`{"recycled":["the","original","object","\n\t\u00e9",12345,"`+string(bytes.Repeat([]byte("r"), 300))+`"]}`), objs[0]); err != nil {
		return bugf("recycling parse failed: %v", err)
	}
	for i := 2; i < len(objs); i++ {
		if err := checkAgainstModel(objs[i], models[i], c.ND, fullInvariants); err != nil {
			return fmt.Errorf("after the original was recycled by a later Parse: %s no longer matches its document: %v", names[i], err)
		}
	}
	return nil
}

func cloneRoots(r []*rj.Node) []*rj.Node {
	out := make([]*rj.Node, len(r))
	for i, n := range r {
		out[i] = cloneNode(n)
	}
	return out
}

var c16ClonesRun = register("C16", "clones", c16ClonesCheck)

// ---- values delivered by ParseNDStream ----

type c16Stream struct {
	Lines   [][]byte `json:"lines"`
	Frag    int      `json:"frag"`    // fragment size of the reader
	Recycle int      `json:"recycle"` // every k-th value is recycled through the reuse channel after being read (0: none)
	// NilReuse: no reuse channel is passed at all (only meaningful with Recycle 0)
	NilReuse bool `json:"nil_reuse,omitempty"`
	// Lead: white space written before line i (per line, cycled); 0..n spaces/tabs, so that chunks begin with white space
	Lead []int `json:"lead,omitempty"`
	// BlankBefore: an empty or white-space-only line is inserted before line i when BlankBefore[i%len] is true
	BlankBefore []bool `json:"blank_before,omitempty"`
}

// scribbleReader hands out fragments from its own buffer and overwrites that buffer as soon as Read returns.
type scribbleReader struct {
	data []byte
	pos  int
	frag int
	buf  []byte
}

func (r *scribbleReader) Read(p []byte) (int, error) {
	if r.pos >= len(r.data) {
		return 0, io.EOF
	}
	n := r.frag
	if n > len(p) {
		n = len(p)
	}
	if n > len(r.data)-r.pos {
		n = len(r.data) - r.pos
	}
	// stage the fragment in the reader's single backing array, copy out, then scribble over it
	if cap(r.buf) < n {
		r.buf = make([]byte, n)
	}
	r.buf = r.buf[:n]
	copy(r.buf, r.data[r.pos:r.pos+n])
	copy(p, r.buf)
	for i := range r.buf {
		r.buf[i] = 0xAA
	}
	r.pos += n
	return n, nil
}

func c16StreamCheck(c c16Stream) error {
	var data []byte
	var roots []*rj.Node
	for i, l := range c.Lines {
		if len(c.BlankBefore) > 0 && c.BlankBefore[i%len(c.BlankBefore)] {
			data = append(data, " \t\n"[i%3:]...)
		}
		if len(c.Lead) > 0 {
			for k := 0; k < c.Lead[i%len(c.Lead)]; k++ {
				data = append(data, " \t"[k%2])
			}
		}
		data = append(data, l...)
		data = append(data, '\n')
		m, err := modelOf(l)
		if err != nil {
			return err
		}
		roots = append(roots, m)
	}
	frag := c.Frag
	if frag < 1 {
		frag = 1
	}
	res := make(chan simdjson.Stream, 4)
	reuse := make(chan *simdjson.ParsedJson, 4)
	stop := watchdog(hangLimit(), "C16 stream")
	defer stop()
	if c.NilReuse && c.Recycle == 0 {
		simdjson.ParseNDStream(&scribbleReader{data: append([]byte(nil), data...), frag: frag}, res, nil)
	} else {
		simdjson.ParseNDStream(&scribbleReader{data: append([]byte(nil), data...), frag: frag}, res, reuse)
	}
	var held []*simdjson.ParsedJson
	var heldCanon [][]byte
	var got []byte
	n := 0
	sawEOF := false
	for v := range res {
		if v.Error != nil {
			if v.Error == io.EOF {
				sawEOF = true
				continue
			}
			return fmt.Errorf("stream error: %v", v.Error)
		}
		n++
		cn, err := walkW1(v.Value)
		if err != nil {
			return fmt.Errorf("value %d not traversable: %v", n, err)
		}
		if len(got) > 0 {
			got = append(got, '\n')
		}
		got = append(got, cn...)
		if c.Recycle > 0 && n%c.Recycle == 0 {
			select {
			case reuse <- v.Value:
			default:
			}
		} else {
			held = append(held, v.Value)
			heldCanon = append(heldCanon, cn)
		}
	}
	if !sawEOF {
		return fmt.Errorf("stream closed without io.EOF")
	}
	want := modelCanonAll(roots, canonOpts{})
	if !bytes.Equal(want, got) {
		return fmt.Errorf("stream delivered a different document sequence: %s", diffCanon(want, got))
	}
	// values held until the end still expose what they exposed on delivery
	for i, h := range held {
		cn, err := walkW1(h)
		if err != nil || !bytes.Equal(cn, heldCanon[i]) {
			return fmt.Errorf("held value %d changed after later chunks were parsed / buffers recycled: %v %s", i, err, diffCanon(heldCanon[i], cn))
		}
		it := h.Iter()
		if _, err := it.MarshalJSON(); err != nil {
			return fmt.Errorf("held value %d: MarshalJSON: %v", i, err)
		}
	}
	time.Sleep(0)
	return nil
}

var c16StreamRun = register("C16", "stream", c16StreamCheck)

func docStringFacts(roots []*rj.Node) (escaped, plain bool) {
	var rec func(n *rj.Node)
	chk := func(s []byte) {
		e := false
		for _, b := range s {
			if b < 0x20 || b == '"' || b == '\\' || b >= 0x80 {
				e = true
			}
		}
		if e {
			escaped = true
		} else {
			plain = true
		}
	}
	rec = func(n *rj.Node) {
		switch n.K {
		case rj.Str:
			chk(n.S)
		case rj.Arr:
			for _, x := range n.A {
				rec(x)
			}
		case rj.Obj:
			for _, m := range n.O {
				chk(m.Key)
				rec(m.Val)
			}
		}
	}
	for _, r := range roots {
		rec(r)
	}
	return
}

func TestC16_Overwrite(t *testing.T) {
	runRapid(t, "C16_Overwrite", nCases(60_000, 1_200_000), func(t *rapid.T) {
		nd := rapid.IntRange(0, 3).Draw(t, "nd") == 0
		var doc []byte
		if nd {
			n := rapid.IntRange(1, 4).Draw(t, "lines")
			for i := 0; i < n; i++ {
				line, _ := render(genDoc(t, profStr), layout{NoLF: true})
				doc = append(append(doc, line...), '\n')
			}
		} else {
			ps := []docProfile{profStr, profStr, profMedium, profTiny}
			doc, _ = render(genDoc(t, ps[rapid.IntRange(0, 3).Draw(t, "p")]), genLayout(t, false))
		}
		c := c16Overwrite{Doc: doc, ND: nd, How: rapid.IntRange(0, 4).Draw(t, "how"), Pad: rapid.IntRange(0, 100).Draw(t, "pad"), Lead: rapid.IntRange(0, 70).Draw(t, "lead"), Prior: rapid.IntRange(0, 2).Draw(t, "prior") == 0}
		c16OverwriteRun(t, c)
		roots, _ := parseModelRoots(doc, nd)
		e, p := docStringFacts(roots)
		col("C16").Eval(e && p, evidHash(doc, []byte{byte(c.How), b2i(nd)}), "kind:overwrite", fmt.Sprintf("how:%d", c.How), boolClass("nd", nd))
		col("C16").Sample(func() interface{} { return map[string]interface{}{"kind": "overwrite", "doc": clip(doc), "how": c.How} })
	})
	col("C16").Completed("TestC16_Overwrite")
}

func TestC16_Clones(t *testing.T) {
	mix := opMix{sets: true, delObj: true, delArr: true, setNullContainer: true}
	runRapid(t, "C16_Clones", nCases(25_000, 500_000), func(t *rapid.T) {
		h := genHistory(t, mix, 3, editProfiles)
		c := c16Clones{Doc: h.Doc, ND: h.ND, Copy: h.Copy, Pre: h.Ops}
		// simulate three models to draw valid ops
		base, _ := parseModelRoots(h.Doc, h.ND)
		for _, op := range h.Ops {
			applyModel(base, op)
		}
		models := [][]*rj.Node{base, cloneRoots(base), cloneRoots(base), cloneRoots(base)}
		n := rapid.IntRange(1, 8).Draw(t, "nsteps")
		who := map[int]bool{}
		for i := 0; i < n; i++ {
			w := rapid.IntRange(0, 3).Draw(t, "who")
			op, ok := genOp(t, models[w], mix)
			if !ok {
				continue
			}
			applyModel(models[w], op)
			c.Steps = append(c.Steps, c16CloneStep{Who: w, Op: op})
			who[w] = true
		}
		c16ClonesRun(t, c)
		b, _ := json.Marshal(c)
		col("C16").Eval(who[0] && (who[1] || who[2] || who[3]), evidHash(b), "kind:clones", boolClass("nd", h.ND), boolClass("copy", h.Copy))
		col("C16").Sample(func() interface{} {
			return map[string]interface{}{"kind": "clones", "doc": clip(h.Doc), "pre_edits": len(h.Ops), "steps": len(c.Steps)}
		})
	})
	col("C16").Completed("TestC16_Clones")
}

func TestC16_Stream(t *testing.T) {
	runRapid(t, "C16_Stream", nCases(4_000, 80_000), func(t *rapid.T) {
		n := rapid.IntRange(1, 12).Draw(t, "lines")
		var c c16Stream
		for i := 0; i < n; i++ {
			line, _ := render(genDoc(t, profStr), layout{NoLF: true})
			c.Lines = append(c.Lines, line)
		}
		c.Frag = rapid.IntRange(1, 200).Draw(t, "frag")
		c.Recycle = rapid.IntRange(0, 3).Draw(t, "recycle")
		c.NilReuse = rapid.Bool().Draw(t, "nilreuse")
		if rapid.Bool().Draw(t, "leadws") {
			c.Lead = rapid.SliceOfN(rapid.IntRange(0, 5), 1, 4).Draw(t, "lead")
		}
		if rapid.IntRange(0, 2).Draw(t, "blanks") == 0 {
			c.BlankBefore = rapid.SliceOfN(rapid.Bool(), 1, 4).Draw(t, "blankbefore")
		}
		c16StreamRun(t, c)
		b, _ := json.Marshal(c)
		col("C16").Eval(n >= 2, evidHash(b), "kind:stream", fmt.Sprintf("recycle:%d", c.Recycle))
		col("C16").Sample(func() interface{} {
			return map[string]interface{}{"kind": "stream", "lines": n, "frag": c.Frag, "recycle": c.Recycle}
		})
	})
	col("C16").Completed("TestC16_Stream")
}
