package props

import (
	"bytes"
	"encoding/json"
	"fmt"
	"math"
	"math/big"
	"strconv"
	"strings"
	"testing"

	simdjson "github.com/minio/simdjson-go"
)

// C18: floats are printed shortest-round-trip in ECMAScript format.

type c18Case struct {
	Bits uint64 `json:"bits"`
	// Via: "set" = SetFloat + StringCvt + MarshalJSON ; "parse" = parse a literal that rounds to the value, then marshal
	Via string `json:"via"`
	// Prev: bit patterns put into the other three array elements, so that one marshal call prints a sequence
	Prev []uint64 `json:"prev,omitempty"`
}

// a reusable one-float document per goroutine is not needed: tests are single-goroutine.
type c18Env struct {
	pj   *simdjson.ParsedJson
	root simdjson.Iter
}

func newC18Env() (*c18Env, error) {
	pj, err := simdjson.Parse([]byte(`[0.5,1.5,2.5,3.5]`), nil)
	if err != nil {
		return nil, err
	}
	return &c18Env{pj: pj}, nil
}

var c18env *c18Env

// the three values marshalled before the current one (zeros of both signs to start with)
var c18defaultPrev = [3]float64{0, math.Copysign(0, -1), 0}

// running history of the evaluator (part of every case, so that replays are pure)
var c18hist = []uint64{0, 1 << 63, 0}

func c18Check(c c18Case) error {
	f := math.Float64frombits(c.Bits)
	if math.IsNaN(f) || math.IsInf(f, 0) {
		return bugf("non-finite case")
	}
	want, err := json.Marshal(f)
	if err != nil {
		return bugf("encoding/json failed on finite float: %v", err)
	}
	var got, gotCvt string
	switch c.Via {
	case "parse-int":
		// the float reached through a literal in integer notation that overflows both 64-bit integer types (it is then
		// exposed as this float, with the overflowed-integer flag): it must print like any other float of that value
		if !(f >= 18446744073709551616.0 || f < -9223372036854775808.0) {
			col("C18").Skip("parse-int path: value fits a 64-bit integer")
			return nil
		}
		bi, _ := new(big.Float).SetFloat64(f).Int(nil)
		lit := bi.String()
		pj, err := simdjson.Parse([]byte("["+lit+"]"), nil)
		if err != nil {
			return fmt.Errorf("parse of %s failed: %v", lit, err)
		}
		ti := pj.Iter()
		ti.AdvanceInto()
		ti.AdvanceInto()
		ti.AdvanceInto()
		if v, err := ti.Float(); err != nil || math.Float64bits(v) != c.Bits {
			col("C18").Skip("parse-int path: literal not exposed as the expected float (C03's business)")
			return nil
		}
		if gotCvt, err = ti.StringCvt(); err != nil {
			return fmt.Errorf("StringCvt after parse of %s: %v", lit, err)
		}
		it := pj.Iter()
		b, err := it.MarshalJSON()
		if err != nil {
			return fmt.Errorf("marshal after parse of %s: %v", lit, err)
		}
		if len(b) < 2 || b[0] != '[' || b[len(b)-1] != ']' {
			return fmt.Errorf("marshal after parse of %s gave %q", lit, b)
		}
		got = string(b[1 : len(b)-1])
	case "parse":
		if !bytes.ContainsAny(want, ".e") {
			// an integer-notation literal is parsed as int/uint, not as a float: outside C18
			col("C18").Skip("parse path: literal in integer notation")
			return nil
		}
		pj, err := simdjson.Parse([]byte("["+string(want)+"]"), nil)
		if err != nil {
			return fmt.Errorf("parse of %s failed: %v", want, err)
		}
		it := pj.Iter()
		b, err := it.MarshalJSON()
		if err != nil {
			return fmt.Errorf("marshal after parse of %s: %v", want, err)
		}
		if len(b) < 2 || b[0] != '[' || b[len(b)-1] != ']' {
			return fmt.Errorf("marshal after parse of %s gave %q", want, b)
		}
		got = string(b[1 : len(b)-1])
		gotCvt = got
	default:
		if c18env == nil {
			if c18env, err = newC18Env(); err != nil {
				return bugf("cannot parse seed doc: %v", err)
			}
		}
		it := c18env.pj.Iter()
		it.AdvanceInto() // root
		it.AdvanceInto() // [
		tag := it.AdvanceInto()
		if tag.Type() == simdjson.TypeNone {
			return bugf("seed doc has no element")
		}
		if err := it.SetFloat(f); err != nil {
			return fmt.Errorf("SetFloat: %v", err)
		}
		gotCvt, err = it.StringCvt()
		if err != nil {
			return fmt.Errorf("StringCvt(%x): %v", c.Bits, err)
		}
		// the other three elements hold the previous values of this run: one marshal call prints a sequence
		seq := []float64{f}
		for k := 0; k < 3; k++ {
			tag = it.AdvanceInto()
			if tag.Type() == simdjson.TypeNone {
				return bugf("seed doc too short")
			}
			prev := c18defaultPrev[k]
			if k < len(c.Prev) {
				prev = math.Float64frombits(c.Prev[k])
			}
			if math.IsNaN(prev) || math.IsInf(prev, 0) {
				prev = 0
			}
			if err := it.SetFloat(prev); err != nil {
				return fmt.Errorf("SetFloat: %v", err)
			}
			seq = append(seq, prev)
		}
		rt := c18env.pj.Iter()
		b, err := rt.MarshalJSON()
		if err != nil {
			return fmt.Errorf("MarshalJSON(%x): %v", c.Bits, err)
		}
		wantSeq, _ := json.Marshal(seq)
		if !bytes.Equal(b, wantSeq) {
			return fmt.Errorf("marshalling the float sequence %v: got %s, encoding/json prints %s", seq, b, wantSeq)
		}
		got = string(b[1:bytes.IndexByte(b, ',')])
	}
	if got != string(want) {
		return fmt.Errorf("bits %#x: MarshalJSON printed %q, encoding/json prints %q", c.Bits, got, want)
	}
	if gotCvt != string(want) {
		return fmt.Errorf("bits %#x: StringCvt printed %q, encoding/json prints %q", c.Bits, gotCvt, want)
	}
	// Independent of encoding/json: round trip, shortest, format.
	return c18Independent(c.Bits, f, got)
}

func c18Independent(bits uint64, f float64, s string) error {
	back, err := strconv.ParseFloat(s, 64)
	if err != nil {
		return fmt.Errorf("bits %#x: output %q does not parse: %v", bits, s, err)
	}
	if math.Float64bits(back) != bits {
		return fmt.Errorf("bits %#x: output %q parses back to %#x", bits, s, math.Float64bits(back))
	}
	// format
	abs := math.Abs(f)
	wantPlain := (abs >= 1e-6 && abs < 1e21) || abs == 0
	hasE := strings.ContainsAny(s, "eE")
	if wantPlain == hasE {
		return fmt.Errorf("bits %#x: output %q uses the wrong notation (plain expected: %v)", bits, s, wantPlain)
	}
	if strings.Contains(s, "E") || strings.Contains(s, "+0") || strings.Contains(s, "e-0") || strings.Contains(s, "e+0") {
		return fmt.Errorf("bits %#x: output %q has a padded or upper-case exponent", bits, s)
	}
	if math.Signbit(f) != strings.HasPrefix(s, "-") {
		return fmt.Errorf("bits %#x: output %q has the wrong sign", bits, s)
	}
	// shortest: extract digits and exponent
	mant := s
	exp := 0
	if i := strings.IndexByte(s, 'e'); i >= 0 {
		mant = s[:i]
		exp, err = strconv.Atoi(s[i+1:])
		if err != nil {
			return fmt.Errorf("bits %#x: bad exponent in %q", bits, s)
		}
	}
	mant = strings.TrimPrefix(mant, "-")
	intPart, frac := mant, ""
	if i := strings.IndexByte(mant, '.'); i >= 0 {
		intPart, frac = mant[:i], mant[i+1:]
		if frac == "" || intPart == "" {
			return fmt.Errorf("bits %#x: output %q has an empty integer or fraction part", bits, s)
		}
		if strings.HasSuffix(frac, "0") {
			return fmt.Errorf("bits %#x: output %q has trailing zeros in the fraction", bits, s)
		}
	}
	if len(intPart) > 1 && intPart[0] == '0' {
		return fmt.Errorf("bits %#x: output %q has a leading zero", bits, s)
	}
	digits := intPart + frac
	e10 := exp - len(frac) // value = digits * 10^e10
	d := strings.TrimLeft(digits, "0")
	// strip trailing zeros (integers like 1e20 printed as 100000000000000000000)
	for len(d) > 1 && d[len(d)-1] == '0' {
		d = d[:len(d)-1]
		e10++
	}
	if f == 0 {
		return nil
	}
	if len(d) > 17 {
		return fmt.Errorf("bits %#x: output %q has %d significant digits", bits, s, len(d))
	}
	if len(d) > 1 {
		// candidates with one digit fewer: truncation and truncation+1
		trunc := d[:len(d)-1]
		n, _ := strconv.ParseUint(trunc, 10, 64)
		for _, cand := range []uint64{n, n + 1} {
			cs := strconv.FormatUint(cand, 10) + "e" + strconv.Itoa(e10+1)
			v, err := strconv.ParseFloat(cs, 64)
			if err == nil && math.Float64bits(math.Abs(v)) == bits&^(1<<63) {
				return fmt.Errorf("bits %#x: output %q is not shortest: %s round-trips too", bits, s, cs)
			}
		}
	}
	return nil
}

var c18Run = register("C18", "float", c18Check)

func c18Trivial(f float64) bool {
	return f == math.Trunc(f) && math.Abs(f) <= 16
}

func c18Eval(t *testing.T, bits uint64, via, class string) {
	f := math.Float64frombits(bits)
	if math.IsNaN(f) || math.IsInf(f, 0) {
		return
	}
	c := c18Case{Bits: bits, Via: via, Prev: append([]uint64(nil), c18hist...)}
	c18Run(t, c)
	if via == "set" {
		c18hist[2], c18hist[1], c18hist[0] = c18hist[1], c18hist[0], bits
		if bits<<1 != 0 && (bits>>7)%5 == 0 {
			c18hist[1] = bits ^ 1<<63 // now and then the same magnitude with the other sign follows
		}
	}
	cl := col("C18")
	var hb [9]byte
	for i := 0; i < 8; i++ {
		hb[i] = byte(bits >> (8 * i))
	}
	if via == "parse" {
		hb[8] = 1
	}
	if via == "parse-int" {
		hb[8] = 2
	}
	cl.Eval(!c18Trivial(f), evidHash(hb[:]), "class:"+class, "via:"+via)
	cl.Sample(func() interface{} {
		s, _ := json.Marshal(f)
		return map[string]interface{}{"bits": fmt.Sprintf("%#016x", bits), "via": via, "class": class, "printed": string(s)}
	})
}

func TestC18(t *testing.T) {
	cl := col("C18")
	r := newPRNG("C18")
	mine := func(i int) bool { return i%envNShards == envShard }

	// (a) every binade x {min, max, random mantissas}, both signs on a sample
	idx := 0
	for e := uint64(0); e < 0x7ff; e++ {
		for k := 0; k < 6; k++ {
			idx++
			if !mine(idx) {
				continue
			}
			var m uint64
			switch k {
			case 0:
				m = 0
			case 1:
				m = 1<<52 - 1
			case 2:
				m = 1
			default:
				m = r.u64() & (1<<52 - 1)
			}
			bits := e<<52 | m
			if k == 5 {
				bits |= 1 << 63
			}
			if e == 0 && m == 0 && k != 0 {
				continue
			}
			c18Eval(t, bits, "set", "binade")
		}
	}
	cl.Exhaustive("every float64 binade (2047 exponents incl. subnormal) x {min,max,min+1 mantissa}")

	// (b) all subnormal exponents: 2^k for k=0..51 and neighbours
	for k := 0; k < 52; k++ {
		for _, d := range []int64{-1, 0, 1} {
			idx++
			if !mine(idx) {
				continue
			}
			b := uint64(int64(uint64(1)<<k) + d)
			if b == 0 {
				continue
			}
			c18Eval(t, b, "set", "subnormal")
		}
	}

	// (c) every power of ten and both neighbours (+-1..2 ulp), both via set and parse
	for k := -323; k <= 308; k++ {
		f, err := strconv.ParseFloat("1e"+strconv.Itoa(k), 64)
		if err != nil {
			t.Fatalf("oracle: %v", err)
		}
		b0 := math.Float64bits(f)
		for d := int64(-2); d <= 2; d++ {
			idx++
			if !mine(idx) {
				continue
			}
			b := uint64(int64(b0) + d)
			if b == 0 {
				continue
			}
			c18Eval(t, b, "set", "pow10")
			c18Eval(t, b|1<<63, "set", "pow10")
			c18Eval(t, b, "parse", "pow10")
		}
	}
	cl.Exhaustive("every power of ten 1e-323..1e308 with +-2 ulp neighbours")

	// (d) format switch points 1e-6 and 1e21: +-64 ulps
	for _, s := range []string{"1e-6", "1e21", "1e-7", "1e20", "1e22", "1e-5"} {
		f, _ := strconv.ParseFloat(s, 64)
		b0 := math.Float64bits(f)
		for d := int64(-64); d <= 64; d++ {
			idx++
			if !mine(idx) {
				continue
			}
			c18Eval(t, uint64(int64(b0)+d), "set", "switch")
			c18Eval(t, uint64(int64(b0)+d)|1<<63, "parse", "switch")
		}
	}

	// (e) special values
	if envShard == 0 {
		for _, b := range []uint64{0, 1 << 63, 1, 1<<63 | 1, 0x7fefffffffffffff, 0xffefffffffffffff, 0x0010000000000000, 0x000fffffffffffff,
			math.Float64bits(0.1), math.Float64bits(0.2), math.Float64bits(0.3), math.Float64bits(1.0 / 3), math.Float64bits(5e-324),
			math.Float64bits(9007199254740993), math.Float64bits(1 << 63), math.Float64bits(1 << 64), math.Float64bits(123456789012345680000)} {
			c18Eval(t, b, "set", "special")
			c18Eval(t, b, "parse", "special")
		}
		for i := -16; i <= 16; i++ {
			c18Eval(t, math.Float64bits(float64(i)), "set", "smallint")
		}
	}

	// (e2) dyadic rationals k/2^j and k*2^j with short k: their decimal expansions terminate, so exact ties at the last
	// printed digit (round-half-even decisions of the shortest-digits algorithm) occur, which random patterns never hit;
	// and large values reached through integer-notation literals
	nd := nCases(600_000, 6_000_000)
	for i := 0; i < nd; i++ {
		k := r.u64() >> uint(40+r.intn(24)) // up to 24 significant bits
		if k == 0 {
			k = 1
		}
		j := r.intn(140) - 70
		f := math.Ldexp(float64(k), j)
		if r.intn(3) == 0 {
			// 2^e + k/2^j: long mantissas with a short tail, e.g. 2^50+0.25
			f = math.Ldexp(1, 20+r.intn(60)) + math.Ldexp(float64(k&0xff), -1-r.intn(8))
		}
		if f == 0 || math.IsInf(f, 0) {
			continue
		}
		b := math.Float64bits(f)
		if r.intn(4) == 0 {
			b |= 1 << 63
		}
		c18Eval(t, b, "set", "dyadic")
	}
	for i := 0; i < nCases(120_000, 2_000_000); i++ {
		e := 63 + r.intn(960)
		b := uint64(1023+e)<<52 | r.u64()&(1<<52-1)
		if r.intn(3) == 0 {
			b &^= 1<<uint(r.intn(52)) - 1 // few significant bits
		}
		if r.intn(4) == 0 {
			b |= 1 << 63
		}
		c18Eval(t, b, "parse-int", "overflowed-integer-literal")
	}

	// (f) integers up to 2^63 scaled by powers of ten
	n := nCases(1_200_000, 12_000_000)
	for i := 0; i < n; i++ {
		m := r.u64() >> uint(r.intn(64))
		k := r.intn(640) - 330
		f, err := strconv.ParseFloat(strconv.FormatUint(m, 10)+"e"+strconv.Itoa(k), 64)
		if err != nil || math.IsInf(f, 0) {
			continue
		}
		via := "set"
		if i%16 == 0 {
			via = "parse"
		}
		c18Eval(t, math.Float64bits(f), via, "int*10^k")
	}

	// (g) digit-count classes 1..17
	n = nCases(800_000, 8_000_000)
	for i := 0; i < n; i++ {
		nd := 1 + r.intn(17)
		var sb bytes.Buffer
		sb.WriteByte(byte('1' + r.intn(9)))
		for j := 1; j < nd; j++ {
			sb.WriteByte(byte('0' + r.intn(10)))
		}
		sb.WriteString("e")
		sb.WriteString(strconv.Itoa(r.intn(650) - 340))
		f, err := strconv.ParseFloat(sb.String(), 64)
		if err != nil || math.IsInf(f, 0) {
			continue
		}
		b := math.Float64bits(f)
		if r.intn(4) == 0 {
			b |= 1 << 63
		}
		c18Eval(t, b, "set", fmt.Sprintf("digits%02d", nd))
	}

	// (h) uniform random bit patterns
	n = nCases(8_000_000, 400_000_000)
	for i := 0; i < n; i++ {
		b := r.u64()
		if (b>>52)&0x7ff == 0x7ff {
			b &^= 1 << 52
		}
		via := "set"
		if i%32 == 0 {
			via = "parse"
		}
		c18Eval(t, b, via, "uniform")
	}
	cl.Completed("TestC18")
}
