package props

import (
	"bytes"
	"fmt"
	"os"
	"path/filepath"
	"sort"
	"sync"
	"testing"

	"github.com/klauspost/compress/zstd"
	"pgregory.net/rapid"

	rj "verifharness/internal/refjson"
)

// Real-world documents from the repository's testdata (decoded with the vendored zstd), used as additional
// seeds: as they are (C02, C17), mutated (C01), and for the kernel differential (C06).

var (
	repoDocsOnce sync.Once
	repoDocs     []repoDoc
)

type repoDoc struct {
	name string
	data []byte
}

func repoTestdataDir() string {
	if d := os.Getenv("VERIF_REPO"); d != "" {
		return filepath.Join(d, "testdata")
	}
	return "/repo/testdata"
}

func loadRepoDocs() []repoDoc {
	repoDocsOnce.Do(func() {
		files, _ := filepath.Glob(filepath.Join(repoTestdataDir(), "*.json.zst"))
		sort.Strings(files)
		dec, err := zstd.NewReader(nil)
		if err != nil {
			return
		}
		defer dec.Close()
		for _, f := range files {
			b, err := os.ReadFile(f)
			if err != nil {
				continue
			}
			out, err := dec.DecodeAll(b, nil)
			if err != nil {
				continue
			}
			repoDocs = append(repoDocs, repoDoc{name: filepath.Base(f), data: out})
		}
	})
	return repoDocs
}

// repoDocIsSingle: parking-citations is newline-delimited; everything else is one document.
func repoDocIsSingle(d repoDoc) bool {
	v, _ := rj.Classify(d.data)
	return v == rj.MustAccept
}

func TestC02_RepoDocs(t *testing.T) {
	docs := loadRepoDocs()
	if len(docs) == 0 {
		col("C02").Note("repository testdata not found; real-world documents not exercised")
		return
	}
	for i, d := range docs {
		if i%envNShards != envShard || !repoDocIsSingle(d) {
			continue
		}
		if !thorough() && len(d.data) > 1<<20 {
			continue
		}
		c02Eval(t, d.data, "repo:"+d.name)
	}
	col("C02").Completed("TestC02_RepoDocs")
}

func TestC17_RepoDocs(t *testing.T) {
	for i, d := range loadRepoDocs() {
		if i%envNShards != envShard || !repoDocIsSingle(d) {
			continue
		}
		if !thorough() && len(d.data) > 1<<20 {
			continue
		}
		c17Eval(t, d.data, "repo:"+d.name)
	}
	col("C17").Completed("TestC17_RepoDocs")
}

// mutateBytes applies 1-3 byte-level edits at generated positions (cheap on megabyte documents).
func mutateBytes(t *rapid.T, in []byte) ([]byte, string) {
	out := append([]byte(nil), in...)
	n := rapid.IntRange(1, 3).Draw(t, "nmut")
	kind := ""
	for i := 0; i < n && len(out) > 0; i++ {
		p := rapid.IntRange(0, len(out)-1).Draw(t, "pos")
		switch rapid.IntRange(0, 4).Draw(t, "bk") {
		case 0:
			out[p] = insertPool[rapid.IntRange(0, len(insertPool)-1).Draw(t, "b")]
			kind += "r"
		case 1:
			out = append(out[:p], out[p+1:]...)
			kind += "d"
		case 2:
			b := insertPool[rapid.IntRange(0, len(insertPool)-1).Draw(t, "b")]
			out = append(out[:p], append([]byte{b}, out[p:]...)...)
			kind += "i"
		case 3:
			out = out[:p]
			kind += "t"
		default: // swap two adjacent bytes
			if p+1 < len(out) {
				out[p], out[p+1] = out[p+1], out[p]
			}
			kind += "s"
		}
	}
	return out, kind
}

func pickRepoDoc(t *rapid.T, maxLen int) (repoDoc, bool) {
	docs := loadRepoDocs()
	var ok []repoDoc
	for _, d := range docs {
		if len(d.data) <= maxLen {
			ok = append(ok, d)
		}
	}
	if len(ok) == 0 {
		return repoDoc{}, false
	}
	return ok[rapid.IntRange(0, len(ok)-1).Draw(t, "repodoc")], true
}

func TestC01_RepoMutations(t *testing.T) {
	if len(loadRepoDocs()) == 0 {
		col("C01").Note("repository testdata not found; real-world mutations not exercised")
		return
	}
	maxLen := 200 << 10
	if thorough() {
		maxLen = 3 << 20
	}
	runRapid(t, "C01_RepoMutations", nCases(1_500, 30_000), func(t *rapid.T) {
		d, ok := pickRepoDoc(t, maxLen)
		if !ok {
			return
		}
		in, kind := mutateBytes(t, d.data)
		c01Eval(t, in, "gen:repo-mutation", "repo:"+d.name, "bytemut:"+kind)
	})
	col("C01").Completed("TestC01_RepoMutations")
}

func TestC06_RepoDocs(t *testing.T) {
	if len(loadRepoDocs()) == 0 {
		return
	}
	maxLen := 200 << 10
	if thorough() {
		maxLen = 3 << 20
	}
	runRapid(t, "C06_RepoDocs", nCases(1_500, 30_000), func(t *rapid.T) {
		d, ok := pickRepoDoc(t, maxLen)
		if !ok {
			return
		}
		in := d.data
		kind := "intact"
		if rapid.Bool().Draw(t, "mutate") {
			in, kind = mutateBytes(t, d.data)
		}
		// shift the whole document by 0..63 bytes of white space so that every token meets every block offset
		pad := rapid.IntRange(0, 63).Draw(t, "pad")
		// (leading white space would be trimmed by Parse, so the padding goes right after the first byte)
		if len(in) > 1 {
			shifted := append([]byte{in[0]}, bytes.Repeat([]byte{' '}, pad)...)
			in = append(shifted, in[1:]...)
		}
		c := hostileCase{In: in, ND: rapid.IntRange(0, 3).Draw(t, "nd") == 0}
		c06Run(t, c)
		col("C06").Eval(true, evidHash(in), "gen:repo-doc", "repo:"+d.name, fmt.Sprintf("mut:%v", kind != "intact"))
	})
	col("C06").Completed("TestC06_RepoDocs")
}
