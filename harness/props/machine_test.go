package props

import (
	"bytes"
	"errors"
	"fmt"
	"math"
	"math/big"
	"strings"

	simdjson "github.com/minio/simdjson-go"
	"pgregory.net/rapid"

	rj "verifharness/internal/refjson"
)

// ---------------------------------------------------------------------------------------------
// Edit histories on a parsed document: operations, model transitions, application to the real tape,
// and the "all APIs agree with the model" invariant. Shared by C10, C11, C13, C14, C16.

type editOp struct {
	Kind string `json:"kind"` // SetNull SetBool SetInt SetUInt SetFloat SetString SetStringBytes DelObj DelArr
	Path []int  `json:"path"` // [root index, child index, ...] in the *current* (live) document
	Nav  int    `json:"nav"`  // how the iterator is obtained: 0 typed helpers, 1 AdvanceIter, 2 ForEach callbacks, 3 FindKey where possible
	B    bool   `json:"b,omitempty"`
	I    int64  `json:"i,omitempty"`
	U    uint64 `json:"u,omitempty"`
	F    uint64 `json:"f,omitempty"` // float bits
	S    []byte `json:"s,omitempty"`
	// deletion
	Del   []bool   `json:"del,omitempty"`   // decision of the callback per visited member, in visiting order
	UseFn bool     `json:"usefn,omitempty"` // pass a callback (false: nil callback)
	Keys  []string `json:"keys,omitempty"`  // key filter (objects); nil: none
}

func (o editOp) String() string {
	switch o.Kind {
	case "DelObj", "DelArr":
		return fmt.Sprintf("%s%v nav=%d fn=%v del=%v keys=%q", o.Kind, o.Path, o.Nav, o.UseFn, o.Del, o.Keys)
	case "SetString", "SetStringBytes":
		return fmt.Sprintf("%s%v nav=%d %q", o.Kind, o.Path, o.Nav, clip(o.S))
	case "SetFloat":
		return fmt.Sprintf("%s%v nav=%d %v", o.Kind, o.Path, o.Nav, math.Float64frombits(o.F))
	}
	return fmt.Sprintf("%s%v nav=%d b=%v i=%d u=%d", o.Kind, o.Path, o.Nav, o.B, o.I, o.U)
}

// ---- model side ----

// slot returns the parent container and index addressed by path (path[0] is the root index).
func modelSlot(roots []*rj.Node, path []int) (parent *rj.Node, idx int, node *rj.Node, err error) {
	if len(path) < 1 || path[0] < 0 || path[0] >= len(roots) {
		return nil, 0, nil, errors.New("bad root index")
	}
	node = roots[path[0]]
	for _, k := range path[1:] {
		parent = node
		switch node.K {
		case rj.Arr:
			if k < 0 || k >= len(node.A) {
				return nil, 0, nil, errors.New("bad array index")
			}
			node = node.A[k]
		case rj.Obj:
			if k < 0 || k >= len(node.O) {
				return nil, 0, nil, errors.New("bad member index")
			}
			node = node.O[k].Val
		default:
			return nil, 0, nil, errors.New("path runs through a scalar")
		}
		idx = k
	}
	return parent, idx, node, nil
}

func setSlot(parent *rj.Node, idx int, n *rj.Node) {
	if parent.K == rj.Arr {
		parent.A[idx] = n
	} else {
		parent.O[idx].Val = n
	}
}

func isNumOrStr(n *rj.Node) bool { return n.K == rj.Num || n.K == rj.Str }

// applyModel performs the transition the documentation describes. wantErr: the call must fail and change nothing.
// log: for deletions, the members the callback must see (key + type), in order.
func applyModel(roots []*rj.Node, op editOp) (wantErr bool, log []string, err error) {
	parent, idx, node, err := modelSlot(roots, op.Path)
	if err != nil {
		return false, nil, bugf("op %v does not address the model: %v", op, err)
	}
	switch op.Kind {
	case "SetNull":
		if parent == nil {
			// the top-level container of a root element (a whole record of an NDJSON tape) becomes null
			roots[op.Path[0]] = &rj.Node{K: rj.Null}
			return false, nil, nil
		}
		setSlot(parent, idx, &rj.Node{K: rj.Null})
	case "SetBool":
		if node.K != rj.Bool && node.K != rj.Null {
			return true, nil, nil
		}
		setSlot(parent, idx, &rj.Node{K: rj.Bool, B: op.B})
	case "SetInt":
		if !isNumOrStr(node) {
			return true, nil, nil
		}
		setSlot(parent, idx, &rj.Node{K: rj.Num, NT: 'i', NBits: uint64(op.I)})
	case "SetUInt":
		if !isNumOrStr(node) {
			return true, nil, nil
		}
		setSlot(parent, idx, &rj.Node{K: rj.Num, NT: 'u', NBits: op.U})
	case "SetFloat":
		if !isNumOrStr(node) {
			return true, nil, nil
		}
		setSlot(parent, idx, &rj.Node{K: rj.Num, NT: 'f', NBits: op.F})
	case "SetString", "SetStringBytes":
		if !isNumOrStr(node) {
			return true, nil, nil
		}
		setSlot(parent, idx, &rj.Node{K: rj.Str, S: append([]byte{}, op.S...)})
	case "DelArr":
		if node.K != rj.Arr {
			return false, nil, bugf("DelArr on a %v", node.K)
		}
		var keep []*rj.Node
		for i, c := range node.A {
			log = append(log, "#"+typeName(c))
			del := i < len(op.Del) && op.Del[i]
			if !del {
				keep = append(keep, c)
			}
		}
		node.A = keep
	case "DelObj":
		if node.K != rj.Obj {
			return false, nil, bugf("DelObj on a %v", node.K)
		}
		filter := map[string]bool{}
		for _, k := range op.Keys {
			filter[k] = true
		}
		var keep []rj.Member
		visit := 0
		for _, m := range node.O {
			if len(filter) > 0 && !filter[string(m.Key)] {
				keep = append(keep, m)
				continue
			}
			del := true
			if op.UseFn {
				log = append(log, string(m.Key)+"#"+typeName(m.Val))
				del = visit < len(op.Del) && op.Del[visit]
				visit++
			}
			if !del {
				keep = append(keep, m)
			}
		}
		node.O = keep
	default:
		return false, nil, bugf("unknown op kind %q", op.Kind)
	}
	return false, log, nil
}

func typeName(n *rj.Node) string {
	switch n.K {
	case rj.Null:
		return "null"
	case rj.Bool:
		return "bool"
	case rj.Str:
		return "string"
	case rj.Arr:
		return "array"
	case rj.Obj:
		return "object"
	case rj.Num:
		switch n.NT {
		case 'i':
			return "int"
		case 'u':
			return "uint"
		default:
			return "float"
		}
	}
	return "?"
}

// ---- real side: obtain an iterator positioned on the addressed value ----

func locate(pj *simdjson.ParsedJson, roots []*rj.Node, path []int, nav int) (simdjson.Iter, error) {
	var cur simdjson.Iter
	// root
	switch nav {
	case 1:
		it := pj.Iter()
		var r simdjson.Iter
		for i := 0; i <= path[0]; i++ {
			t, err := it.AdvanceIter(&r)
			if err != nil || t != simdjson.TypeRoot {
				return cur, fmt.Errorf("locate: AdvanceIter to root %d: %v %v", i, t, err)
			}
		}
		if t, err := r.AdvanceIter(&cur); err != nil || t == simdjson.TypeNone {
			return cur, fmt.Errorf("locate: AdvanceIter into root: %v %v", t, err)
		}
	case 2:
		n := 0
		found := false
		err := pj.ForEach(func(i simdjson.Iter) error {
			if n == path[0] {
				cur = i
				found = true
			}
			n++
			return nil
		})
		if err != nil || !found {
			return cur, fmt.Errorf("locate: ForEach did not reach root %d (%v)", path[0], err)
		}
	default:
		it := pj.Iter()
		for i := 0; i <= path[0]; i++ {
			if t := it.Advance(); t != simdjson.TypeRoot {
				return cur, fmt.Errorf("locate: Advance to root %d gave %v", i, t)
			}
		}
		_, r, err := it.Root(nil)
		if err != nil {
			return cur, fmt.Errorf("locate: Root(): %v", err)
		}
		cur = *r
	}
	node := roots[path[0]]
	for _, k := range path[1:] {
		switch node.K {
		case rj.Arr:
			switch nav {
			case 1:
				var e simdjson.Iter
				for i := 0; i <= k; i++ {
					t, err := cur.AdvanceIter(&e)
					if err != nil || t == simdjson.TypeNone {
						return cur, fmt.Errorf("locate: AdvanceIter to element %d: %v %v", i, t, err)
					}
				}
				cur = e
			case 2:
				arr, err := cur.Array(nil)
				if err != nil {
					return cur, fmt.Errorf("locate: Array(): %v", err)
				}
				n := 0
				found := false
				arr.ForEach(func(i simdjson.Iter) {
					if n == k {
						cur = i
						found = true
					}
					n++
				})
				if !found {
					return cur, fmt.Errorf("locate: Array.ForEach visited %d elements, wanted index %d", n, k)
				}
			default:
				arr, err := cur.Array(nil)
				if err != nil {
					return cur, fmt.Errorf("locate: Array(): %v", err)
				}
				ai := arr.Iter()
				for i := 0; i <= k; i++ {
					if t := ai.Advance(); t == simdjson.TypeNone {
						return cur, fmt.Errorf("locate: array iterator ended at element %d, wanted index %d", i, k)
					}
				}
				cur = ai
			}
			node = node.A[k]
		case rj.Obj:
			switch nav {
			case 1:
				var kk, e simdjson.Iter
				for i := 0; i <= k; i++ {
					t, err := cur.AdvanceIter(&kk)
					if err != nil || t != simdjson.TypeString {
						return cur, fmt.Errorf("locate: AdvanceIter to key %d: %v %v", i, t, err)
					}
					t, err = cur.AdvanceIter(&e)
					if err != nil || t == simdjson.TypeNone {
						return cur, fmt.Errorf("locate: AdvanceIter to value %d: %v %v", i, t, err)
					}
				}
				cur = e
			case 2:
				obj, err := cur.Object(nil)
				if err != nil {
					return cur, fmt.Errorf("locate: Object(): %v", err)
				}
				n := 0
				found := false
				if err := obj.ForEach(func(key []byte, i simdjson.Iter) {
					if n == k {
						cur = i
						found = true
					}
					n++
				}, nil); err != nil {
					return cur, fmt.Errorf("locate: Object.ForEach: %v", err)
				}
				if !found {
					return cur, fmt.Errorf("locate: Object.ForEach visited %d members, wanted index %d", n, k)
				}
			case 3:
				obj, err := cur.Object(nil)
				if err != nil {
					return cur, fmt.Errorf("locate: Object(): %v", err)
				}
				key := node.O[k].Key
				first := true
				for j := 0; j < k; j++ {
					if bytes.Equal(node.O[j].Key, key) {
						first = false
					}
				}
				if first {
					el := obj.FindKey(string(key), nil)
					if el == nil {
						return cur, fmt.Errorf("locate: FindKey(%q) found nothing", key)
					}
					cur = el.Iter
					break
				}
				fallthrough
			default:
				obj, err := cur.Object(nil)
				if err != nil {
					return cur, fmt.Errorf("locate: Object(): %v", err)
				}
				var e simdjson.Iter
				for i := 0; i <= k; i++ {
					_, t, err := obj.NextElement(&e)
					if err != nil || t == simdjson.TypeNone {
						return cur, fmt.Errorf("locate: NextElement %d: %v %v", i, t, err)
					}
				}
				cur = e
			}
			node = node.O[k].Val
		default:
			return cur, errors.New("locate: path runs through a scalar")
		}
	}
	return cur, nil
}

// applyReal performs the operation on the tape. Returns the API error (if any) and the callback log.
func applyReal(pj *simdjson.ParsedJson, roots []*rj.Node, op editOp) (apiErr error, log []string, err error) {
	it, err := locate(pj, roots, op.Path, op.Nav)
	if err != nil {
		return nil, nil, err
	}
	// A rejected Set* "changes nothing": that includes the iterator the caller holds, which must expose the same value
	// and remain usable for Object()/Array() afterwards.
	set := func(call func() error) (error, []string, error) {
		small := len(pj.Tape) < 5000
		ty := it.Type()
		var before []byte
		var berr error
		if small {
			pre := it
			before, berr = pre.MarshalJSON()
		}
		apiErr := call()
		if apiErr == nil {
			return nil, nil, nil
		}
		if it.Type() != ty {
			return apiErr, nil, fmt.Errorf("the rejected call changed the type reported by the iterator it was made on from %v to %v", ty, it.Type())
		}
		if small {
			post := it
			after, aerr := post.MarshalJSON()
			if (berr == nil) != (aerr == nil) || !bytes.Equal(before, after) {
				return apiErr, nil, fmt.Errorf("the rejected call changed what the iterator it was made on marshals: before %q (%v), after %q (%v)", clip(before), berr, clip(after), aerr)
			}
		}
		switch ty {
		case simdjson.TypeObject:
			if _, err := it.Object(nil); err != nil {
				return apiErr, nil, fmt.Errorf("after the rejected call Object() fails on the same iterator: %v", err)
			}
		case simdjson.TypeArray:
			if _, err := it.Array(nil); err != nil {
				return apiErr, nil, fmt.Errorf("after the rejected call Array() fails on the same iterator: %v", err)
			}
		}
		return apiErr, nil, nil
	}
	switch op.Kind {
	case "SetNull":
		return set(it.SetNull)
	case "SetBool":
		return set(func() error { return it.SetBool(op.B) })
	case "SetInt":
		return set(func() error { return it.SetInt(op.I) })
	case "SetUInt":
		return set(func() error { return it.SetUInt(op.U) })
	case "SetFloat":
		return set(func() error { return it.SetFloat(math.Float64frombits(op.F)) })
	case "SetString":
		return set(func() error { return it.SetString(string(op.S)) })
	case "SetStringBytes":
		return set(func() error { return it.SetStringBytes(op.S) })
	case "DelArr":
		arr, err := it.Array(nil)
		if err != nil {
			return nil, nil, fmt.Errorf("Array() on the located value: %v", err)
		}
		// the handle that performs the deletion is also read before and after it: whatever a read leaves on the handle
		// (nothing, as far as the API says) must not outlive the deletion
		deep := len(op.Path) > 40
		if !deep {
			_, _ = arr.Interface()
		}
		n := 0
		arr.DeleteElems(func(i simdjson.Iter) bool {
			log = append(log, "#"+typeOfIter(&i))
			d := n < len(op.Del) && op.Del[n]
			n++
			return d
		})
		if !deep {
			after, ierr := arr.Interface()
			if ierr != nil {
				return nil, nil, fmt.Errorf("Array.Interface on the handle that performed the deletion: %v", ierr)
			}
			if _, _, node, merr := modelSlot(roots, op.Path); merr == nil && node != nil && node.K == rj.Arr {
				want := canonNode(nil, node, canonOpts{noFlags: true, mapMode: true})
				if got := canonIface(nil, after); !bytes.Equal(got, want) {
					return nil, nil, fmt.Errorf("Array.Interface on the handle that performed the deletion (and was read before it): %s", diffCanon(want, got))
				}
			}
		}
		return nil, log, nil
	case "DelObj":
		obj, err := it.Object(nil)
		if err != nil {
			return nil, nil, fmt.Errorf("Object() on the located value: %v", err)
		}
		var filter map[string]struct{}
		if op.Keys != nil {
			filter = map[string]struct{}{}
			for _, k := range op.Keys {
				filter[k] = struct{}{}
			}
		}
		var fn func(key []byte, i simdjson.Iter) bool
		n := 0
		if op.UseFn {
			fn = func(key []byte, i simdjson.Iter) bool {
				log = append(log, string(key)+"#"+typeOfIter(&i))
				d := n < len(op.Del) && op.Del[n]
				n++
				return d
			}
		}
		return obj.DeleteElems(fn, filter), log, nil
	}
	return nil, nil, bugf("unknown op kind %q", op.Kind)
}

func typeOfIter(i *simdjson.Iter) string {
	switch i.Type() {
	case simdjson.TypeNull:
		return "null"
	case simdjson.TypeBool:
		return "bool"
	case simdjson.TypeString:
		return "string"
	case simdjson.TypeArray:
		return "array"
	case simdjson.TypeObject:
		return "object"
	case simdjson.TypeInt:
		return "int"
	case simdjson.TypeUint:
		return "uint"
	case simdjson.TypeFloat:
		return "float"
	}
	return i.Type().String()
}

// ---- invariants ----

func modelCanonAll(roots []*rj.Node, o canonOpts) []byte {
	var out []byte
	for i, r := range roots {
		if i > 0 {
			out = append(out, '\n')
		}
		out = canonNode(out, r, o)
	}
	return out
}

// eqNumeric: structural equality where numbers are compared by value (text produced by marshalling loses the
// int/uint/float distinction for integral floats).
func eqNumeric(m, g *rj.Node, where string) error {
	if m.K != g.K {
		return fmt.Errorf("%s: kind %v, want %v", where, g.K, m.K)
	}
	switch m.K {
	case rj.Bool:
		if m.B != g.B {
			return fmt.Errorf("%s: bool %v, want %v", where, g.B, m.B)
		}
	case rj.Str:
		if !bytes.Equal(m.S, g.S) {
			return fmt.Errorf("%s: string %q, want %q", where, clip(g.S), clip(m.S))
		}
	case rj.Num:
		switch m.NT {
		case 'i', 'u':
			want := new(big.Int)
			if m.NT == 'i' {
				want.SetInt64(int64(m.NBits))
			} else {
				want.SetUint64(m.NBits)
			}
			got, ok := new(big.Int).SetString(g.Lit, 10)
			if !ok || got.Cmp(want) != 0 {
				return fmt.Errorf("%s: number %s, want integer %s", where, g.Lit, want)
			}
		default:
			f, fin := rj.FloatOfLiteral(g.Lit)
			if !fin || math.Float64bits(f) != m.NBits {
				return fmt.Errorf("%s: number %s (bits %#x), want float bits %#x (%v)", where, g.Lit, math.Float64bits(f), m.NBits, math.Float64frombits(m.NBits))
			}
		}
	case rj.Arr:
		if len(m.A) != len(g.A) {
			return fmt.Errorf("%s: array of %d elements, want %d", where, len(g.A), len(m.A))
		}
		for i := range m.A {
			if err := eqNumeric(m.A[i], g.A[i], fmt.Sprintf("%s[%d]", where, i)); err != nil {
				return err
			}
		}
	case rj.Obj:
		if len(m.O) != len(g.O) {
			return fmt.Errorf("%s: object of %d members, want %d", where, len(g.O), len(m.O))
		}
		for i := range m.O {
			if !bytes.Equal(m.O[i].Key, g.O[i].Key) {
				return fmt.Errorf("%s: member %d has key %q, want %q", where, i, g.O[i].Key, m.O[i].Key)
			}
			if err := eqNumeric(m.O[i].Val, g.O[i].Val, fmt.Sprintf("%s.%q", where, m.O[i].Key)); err != nil {
				return err
			}
		}
	}
	return nil
}

// marshalMatches: text is valid JSON (roots separated by newlines) denoting the model; returns the parsed roots.
func marshalMatches(text []byte, roots []*rj.Node, what string) error {
	parts := bytes.Split(text, []byte{'\n'})
	if len(parts) != len(roots) {
		return fmt.Errorf("%s: output has %d newline-separated roots, want %d: %q", what, len(parts), len(roots), clip(text))
	}
	for i, p := range parts {
		// wrapped in brackets so that a root that was replaced by null is a value the reference parser reads as well
		g, err := rj.ParseStrict(append(append([]byte{'['}, p...), ']'))
		if err != nil || len(g.A) != 1 {
			return fmt.Errorf("%s: output is not valid JSON (%v): %q", what, err, clip(p))
		}
		if err := eqNumeric(roots[i], g.A[0], fmt.Sprintf("%s root %d", what, i)); err != nil {
			return fmt.Errorf("%v\noutput: %q", err, clip(p))
		}
	}
	return nil
}

// hasNonFinite reports whether the model holds a NaN/Inf float (then marshalling must fail instead).
func hasNonFinite(n *rj.Node) bool {
	switch n.K {
	case rj.Num:
		if n.NT == 'f' {
			f := math.Float64frombits(n.NBits)
			return math.IsNaN(f) || math.IsInf(f, 0)
		}
	case rj.Arr:
		for _, c := range n.A {
			if hasNonFinite(c) {
				return true
			}
		}
	case rj.Obj:
		for _, m := range n.O {
			if hasNonFinite(m.Val) {
				return true
			}
		}
	}
	return false
}

type invariantSet struct {
	walkers   bool
	marshal   bool
	serialize bool
	tape      bool
}

var fullInvariants = invariantSet{walkers: true, marshal: true, serialize: true, tape: true}

// checkAgainstModel: every read / marshal / serialize API reflects the model.
func checkAgainstModel(pj *simdjson.ParsedJson, roots []*rj.Node, nd bool, inv invariantSet) error {
	mc := func(o canonOpts) []byte { return modelCanonAll(roots, o) }
	if inv.tape {
		if _, err := tapeCheck(pj, false); err != nil {
			return fmt.Errorf("tape format: %v", err)
		}
	}
	if inv.walkers {
		if err := compareWalkers(pj, allWalkers, mc); err != nil {
			return err
		}
	}
	nonFinite := false
	for _, r := range roots {
		if hasNonFinite(r) {
			nonFinite = true
		}
	}
	if inv.marshal {
		it := pj.Iter()
		out, err := it.MarshalJSON()
		if nonFinite {
			if err == nil {
				return fmt.Errorf("MarshalJSON succeeded on a tape holding a non-finite float: %q", clip(out))
			}
		} else {
			if err != nil {
				return fmt.Errorf("Iter.MarshalJSON: %v", err)
			}
			if err := marshalMatches(out, roots, "Iter.MarshalJSON"); err != nil {
				return err
			}
			// fixed point (a document whose root was replaced by null cannot be parsed again: roots must be containers)
			for _, r := range roots {
				if r.K != rj.Arr && r.K != rj.Obj {
					return checkSerializeOnly(pj, roots, inv, mc)
				}
			}
			var re *simdjson.ParsedJson
			if nd {
				re, err = simdjson.ParseND(append([]byte(nil), out...), nil)
			} else {
				re, err = simdjson.Parse(append([]byte(nil), out...), nil)
			}
			if err != nil {
				return fmt.Errorf("marshalled text is rejected by the parser (%v): %q", err, clip(out))
			}
			it2 := re.Iter()
			out2, err := it2.MarshalJSON()
			if err == nil && !bytes.Equal(out, out2) && hasNegZero(roots) {
				// float -0.0 prints as "-0" (C18: byte-identical to encoding/json) and "-0" is a pure integer literal that
				// must be exposed as int64 0 (C03), which prints as "0": the listed properties fix both sides, so the
				// byte-for-byte fixed point is not judged for documents holding a negative zero (see DESIGN section 6).
				col("C10").Skip("fixed-point clause not judged: document holds float -0.0")
				err, out2 = nil, out
			}
			if err != nil || !bytes.Equal(out, out2) {
				return fmt.Errorf("marshal is not a fixed point: %q then %q (%v)", clip(out), clip(out2), err)
			}
		}
	}
	return checkSerializeOnly(pj, roots, inv, mc)
}

// histSer / histDst: Serializer and destination recycled from step to step of one history (reset when a history starts;
// histories run on one goroutine). Every other round trip uses them, the others use fresh objects.
var (
	histSer   *simdjson.Serializer
	histDst   *simdjson.ParsedJson
	histCount int
)

func resetHistSer() { histSer, histDst, histCount = nil, nil, 0 }

func checkSerializeOnly(pj *simdjson.ParsedJson, roots []*rj.Node, inv invariantSet, mc func(o canonOpts) []byte) error {
	if inv.serialize {
		s := simdjson.NewSerializer()
		var dst *simdjson.ParsedJson
		histCount++
		recycled := histCount%2 == 0
		if recycled {
			if histSer == nil {
				histSer = simdjson.NewSerializer()
			}
			s, dst = histSer, histDst
		}
		blob := s.Serialize(nil, *pj)
		pj2, err := s.Deserialize(blob, dst)
		if err != nil {
			if recycled {
				return fmt.Errorf("Deserialize(Serialize(tape)) with the Serializer and into the destination of the previous round trip: %v", err)
			}
			return fmt.Errorf("Deserialize(Serialize(tape)): %v", err)
		}
		if recycled {
			histDst = pj2
		}
		if err := compareWalkers(pj2, []walker{wW1, wW2, wW5}, mc); err != nil {
			return fmt.Errorf("after a serialize round trip: %v", err)
		}
		if _, err := tapeCheck(pj2, true); err != nil {
			return fmt.Errorf("deserialized tape format: %v", err)
		}
	}
	return nil
}

// ---------------------------------------------------------------------------------------------
// Generation of operations against the current model

type opMix struct {
	sets, badSets, delObj, delArr, setNullContainer bool
	nonFinite                                       bool
	nullRoot                                        bool // SetNull may address the top-level container of a root
}

// valuePaths lists the paths of all value positions (excluding the root containers themselves).
func valuePaths(roots []*rj.Node) (scalars, containers [][]int) {
	var rec func(n *rj.Node, path []int)
	rec = func(n *rj.Node, path []int) {
		add := func(c *rj.Node, k int) {
			p := append(append([]int(nil), path...), k)
			if c.K == rj.Arr || c.K == rj.Obj {
				containers = append(containers, p)
				rec(c, p)
			} else {
				scalars = append(scalars, p)
			}
		}
		switch n.K {
		case rj.Arr:
			for i, c := range n.A {
				add(c, i)
			}
		case rj.Obj:
			for i, m := range n.O {
				add(m.Val, i)
			}
		}
	}
	for i, r := range roots {
		rec(r, []int{i})
	}
	return
}

func uniqueKeys(n *rj.Node) bool {
	seen := map[string]bool{}
	for _, m := range n.O {
		if seen[string(m.Key)] {
			return false
		}
		seen[string(m.Key)] = true
	}
	return true
}

var interestingInts = []int64{0, 1, -1, 42, math.MaxInt64, math.MinInt64, 1 << 53, -(1 << 53), 9007199254740993}
var interestingUints = []uint64{0, 1, math.MaxUint64, 1 << 63, 1<<63 - 1, 1 << 53, 18446744073709551614}
var interestingFloats = []float64{0, math.Copysign(0, -1), 1, -1.5, 0.1, 1e21, 1e-7, 1e300, 5e-324, math.MaxFloat64, 9.223372036854775807e18, 1.8446744073709552e19, 3.141592653589793, 100, 1e6}

func genSetValue(t *rapid.T, op *editOp, nonFinite bool) {
	if (op.Kind == "SetInt" || op.Kind == "SetUInt" || op.Kind == "SetFloat") && rapid.IntRange(0, 7).Draw(t, "lookalike") == 0 {
		// a payload word whose top byte is a tag byte
		w := tagLookalikeWords[rapid.IntRange(0, len(tagLookalikeWords)-1).Draw(t, "lw")]
		op.I, op.U, op.F = int64(w), w, w
		return
	}
	switch op.Kind {
	case "SetBool":
		op.B = rapid.Bool().Draw(t, "b")
	case "SetInt":
		if rapid.Bool().Draw(t, "iint") {
			op.I = interestingInts[rapid.IntRange(0, len(interestingInts)-1).Draw(t, "ii")]
		} else {
			op.I = rapid.Int64().Draw(t, "i")
		}
	case "SetUInt":
		if rapid.Bool().Draw(t, "iuint") {
			op.U = interestingUints[rapid.IntRange(0, len(interestingUints)-1).Draw(t, "ui")]
		} else {
			op.U = rapid.Uint64().Draw(t, "u")
		}
	case "SetFloat":
		switch rapid.IntRange(0, 4).Draw(t, "fk") {
		case 4: // large integer-valued floats (2^53 .. 2^70), where shortest-digit generation works near the ulp
			e := rapid.IntRange(53, 70).Draw(t, "fexp")
			m := rapid.Uint64().Draw(t, "fmant")&(1<<52-1) | 1
			op.F = uint64(1023+e)<<52 | m
		case 0:
			op.F = math.Float64bits(interestingFloats[rapid.IntRange(0, len(interestingFloats)-1).Draw(t, "fi")])
		case 1:
			b := rapid.Uint64().Draw(t, "fbits")
			if (b>>52)&0x7ff == 0x7ff {
				b &^= 1 << 52
			}
			op.F = b
		default:
			op.F = math.Float64bits(float64(rapid.IntRange(-100000, 100000).Draw(t, "fsmall")) / 8)
		}
		if nonFinite && rapid.IntRange(0, 9).Draw(t, "nonfinite") == 0 {
			op.F = math.Float64bits([]float64{math.NaN(), math.Inf(1), math.Inf(-1)}[rapid.IntRange(0, 2).Draw(t, "nf")])
		}
	case "SetString", "SetStringBytes":
		switch rapid.IntRange(0, 6).Draw(t, "sk") {
		case 6:
			op.S = mustDecode([]byte(lookalikeStrings[rapid.IntRange(0, len(lookalikeStrings)-1).Draw(t, "lookalike")]))
		case 5:
			op.S = nil // "Sending nil will add an empty string"
		case 0:
			op.S = []byte{}
		case 1:
			// every byte that needs escaping when marshalled, plus DEL and U+2028
			op.S = []byte("q\"b\\s/\b\f\n\r\t\x00\x01\x1f\x7f  é€😀")
		case 2:
			op.S = []byte(strings.Repeat("long-", rapid.IntRange(1, 1000).Draw(t, "slen")))
		default:
			_, op.S = genString(t, true)
			if op.S == nil {
				op.S = []byte{}
			}
		}
	}
}

// genOp draws one operation valid for the current model (or, for badSets, a documented-illegal one).
func genOp(t *rapid.T, roots []*rj.Node, mix opMix) (editOp, bool) {
	scalars, containers := valuePaths(roots)
	type choice struct{ kind string }
	var kinds []string
	if mix.sets && len(scalars) > 0 {
		kinds = append(kinds, "set", "set", "set")
	}
	if mix.setNullContainer && (len(containers) > 0 || mix.nullRoot) {
		kinds = append(kinds, "nullc")
	}
	var objs, arrs [][]int
	nroots := 0
	for i, r := range roots {
		if r.K == rj.Arr || r.K == rj.Obj {
			containers = append(containers, []int{i})
			nroots++
		}
	}
	for _, p := range containers {
		_, _, n, _ := modelSlot(roots, p)
		if n.K == rj.Obj {
			objs = append(objs, p)
		} else {
			arrs = append(arrs, p)
		}
	}
	if mix.delObj && len(objs) > 0 {
		kinds = append(kinds, "delobj", "delobj")
	}
	if mix.delArr && len(arrs) > 0 {
		kinds = append(kinds, "delarr", "delarr")
	}
	if len(kinds) == 0 {
		return editOp{}, false
	}
	op := editOp{Nav: rapid.IntRange(0, 3).Draw(t, "nav")}
	switch kinds[rapid.IntRange(0, len(kinds)-1).Draw(t, "opkind")] {
	case "set":
		op.Path = scalars[rapid.IntRange(0, len(scalars)-1).Draw(t, "target")]
		_, _, node, _ := modelSlot(roots, op.Path)
		all := []string{"SetNull", "SetBool", "SetInt", "SetUInt", "SetFloat", "SetString", "SetStringBytes"}
		var legal []string
		for _, k := range all {
			ok := false
			switch k {
			case "SetNull":
				ok = true
			case "SetBool":
				ok = node.K == rj.Bool || node.K == rj.Null
			default:
				ok = isNumOrStr(node)
			}
			if ok {
				legal = append(legal, k)
			}
		}
		if mix.badSets && rapid.IntRange(0, 4).Draw(t, "illegal") == 0 {
			op.Kind = all[rapid.IntRange(0, len(all)-1).Draw(t, "anykind")]
		} else {
			op.Kind = legal[rapid.IntRange(0, len(legal)-1).Draw(t, "legalkind")]
		}
		genSetValue(t, &op, mix.nonFinite)
		if (op.Kind == "SetString" || op.Kind == "SetStringBytes") && node.K == rj.Str && len(node.S) > 0 && rapid.IntRange(0, 2).Draw(t, "samelen") == 0 {
			// a replacement that is not longer than the string it replaces
			n := rapid.IntRange(1, len(node.S)).Draw(t, "newlen")
			op.S = bytes.Repeat([]byte{'R'}, n)
		}
	case "nullc":
		// SetNull on a nested container; or a documented-illegal Set* on it
		nested := containers[:len(containers)-nroots]
		if mix.nullRoot && nroots > 0 && (len(nested) == 0 || rapid.IntRange(0, 5).Draw(t, "rootnull") == 0) {
			nested = containers[len(containers)-nroots:]
		}
		if len(nested) == 0 {
			return editOp{}, false
		}
		op.Path = nested[rapid.IntRange(0, len(nested)-1).Draw(t, "ctarget")]
		op.Kind = "SetNull"
		if mix.badSets && rapid.IntRange(0, 3).Draw(t, "illegalc") == 0 {
			op.Kind = []string{"SetBool", "SetInt", "SetUInt", "SetFloat", "SetString"}[rapid.IntRange(0, 4).Draw(t, "ck")]
			genSetValue(t, &op, false)
		}
	case "delarr":
		op.Path = arrs[rapid.IntRange(0, len(arrs)-1).Draw(t, "atarget")]
		_, _, node, _ := modelSlot(roots, op.Path)
		op.Kind = "DelArr"
		op.UseFn = true
		op.Del = genDelPattern(t, len(node.A))
	case "delobj":
		op.Path = objs[rapid.IntRange(0, len(objs)-1).Draw(t, "otarget")]
		_, _, node, _ := modelSlot(roots, op.Path)
		op.Kind = "DelObj"
		op.UseFn = rapid.IntRange(0, 3).Draw(t, "usefn") != 0
		if uniqueKeys(node) && len(node.O) > 0 && rapid.IntRange(0, 2).Draw(t, "filter") == 0 {
			// key filter: a subset of the present keys, now and then an absent key as well
			for _, m := range node.O {
				if rapid.Bool().Draw(t, "fk") {
					op.Keys = append(op.Keys, string(m.Key))
				}
			}
			if rapid.IntRange(0, 3).Draw(t, "absent") == 0 {
				op.Keys = append(op.Keys, "absent-key")
			}
		}
		op.Del = genDelPattern(t, len(node.O))
	}
	return op, true
}

func genDelPattern(t *rapid.T, n int) []bool {
	del := make([]bool, n)
	switch rapid.IntRange(0, 6).Draw(t, "delpat") {
	case 0: // none
	case 1: // all
		for i := range del {
			del[i] = true
		}
	case 2: // first
		if n > 0 {
			del[0] = true
		}
	case 3: // last
		if n > 0 {
			del[n-1] = true
		}
	case 4: // alternating
		for i := range del {
			del[i] = i%2 == 0
		}
	case 5: // adjacent run
		if n > 0 {
			a := rapid.IntRange(0, n-1).Draw(t, "runa")
			b := rapid.IntRange(a, n-1).Draw(t, "runb")
			for i := a; i <= b; i++ {
				del[i] = true
			}
		}
	default:
		for i := range del {
			del[i] = rapid.Bool().Draw(t, "d")
		}
	}
	return del
}

// ---------------------------------------------------------------------------------------------
// A history case: document + operations, replayable.

type historyCase struct {
	Doc  []byte   `json:"doc"`
	ND   bool     `json:"nd"`
	Copy bool     `json:"copy"`
	Ops  []editOp `json:"ops"`
	// ViaBlob: the edits are applied to the tape obtained by serializing and deserializing the parsed document
	// (equal strings then share one place in the message buffer)
	ViaBlob bool `json:"via_blob,omitempty"`
}

// parseModelRoots returns the model roots of a (possibly newline-delimited) document.
func parseModelRoots(doc []byte, nd bool) ([]*rj.Node, error) {
	var roots []*rj.Node
	if !nd {
		m, err := modelOf(doc)
		if err != nil {
			return nil, err
		}
		return []*rj.Node{m}, nil
	}
	for _, line := range bytes.Split(doc, []byte{'\n'}) {
		if len(bytes.TrimSpace(line)) == 0 {
			continue
		}
		m, err := modelOf(line)
		if err != nil {
			return nil, err
		}
		roots = append(roots, m)
	}
	return roots, nil
}

// runHistory replays the case on the real tape and the model; check runs after every step.
func runHistory(c historyCase, inv invariantSet, after func(step int, pj *simdjson.ParsedJson, roots []*rj.Node) error) error {
	resetHistSer()
	roots, err := parseModelRoots(c.Doc, c.ND)
	if err != nil {
		return err
	}
	doc := append([]byte(nil), c.Doc...)
	var pj *simdjson.ParsedJson
	if c.ND {
		pj, err = simdjson.ParseND(doc, nil, simdjson.WithCopyStrings(c.Copy))
	} else {
		pj, err = simdjson.Parse(doc, nil, simdjson.WithCopyStrings(c.Copy))
	}
	if err != nil {
		return fmt.Errorf("valid document rejected: %v: %q", err, clip(c.Doc))
	}
	if c.ViaBlob {
		s := simdjson.NewSerializer()
		pj, err = s.Deserialize(s.Serialize(nil, *pj), nil)
		if err != nil {
			return fmt.Errorf("Deserialize(Serialize(tape)): %v", err)
		}
	}
	if err := checkAgainstModel(pj, roots, c.ND, inv); err != nil {
		return fmt.Errorf("before any edit: %v", err)
	}
	if after != nil {
		if err := after(-1, pj, roots); err != nil {
			return fmt.Errorf("before any edit: %v", err)
		}
	}
	for step, op := range c.Ops {
		before := append([]uint64(nil), pj.Tape...)
		wantErr, wantLog, err := applyModel(roots, op)
		if err != nil {
			return err
		}
		apiErr, gotLog, err := applyReal(pj, roots0(roots, op, wantErr), op)
		if err != nil {
			return fmt.Errorf("step %d (%v): %v", step, op, err)
		}
		if wantErr {
			if apiErr == nil {
				return fmt.Errorf("step %d (%v): the documentation disallows this call for the current type, but it succeeded", step, op)
			}
			for i := range before {
				if i >= len(pj.Tape) || before[i] != pj.Tape[i] {
					return fmt.Errorf("step %d (%v): the call failed (%v) but changed tape[%d]", step, op, apiErr, i)
				}
			}
		} else if apiErr != nil {
			return fmt.Errorf("step %d (%v): documented-legal call failed: %v", step, op, apiErr)
		}
		if strings.HasPrefix(op.Kind, "Del") {
			if strings.Join(gotLog, "|") != strings.Join(wantLog, "|") {
				return fmt.Errorf("step %d (%v): callback saw members %q, the live members are %q", step, op, gotLog, wantLog)
			}
		}
		if err := checkAgainstModel(pj, roots, c.ND, inv); err != nil {
			return fmt.Errorf("after step %d (%v): %v\ndocument: %q\nhistory: %v", step, op, err, clip(c.Doc), c.Ops[:step+1])
		}
		if after != nil {
			if err := after(step, pj, roots); err != nil {
				return fmt.Errorf("after step %d (%v): %v", step, op, err)
			}
		}
	}
	return nil
}

// roots0: locate() needs the model as it was *before* the op to navigate (the op has already been applied to the model
// when it is legal). For deletions and sets the path itself is still valid in the pre-state; we navigate using a
// structure that only needs container kinds and keys along the path, which the op does not change above the target.
func roots0(roots []*rj.Node, op editOp, wantErr bool) []*rj.Node { return roots }

// genHistory draws a document and an operation list by simulating the model.
func genHistory(t *rapid.T, mix opMix, maxOps int, profiles []docProfile) historyCase {
	c := historyCase{ND: rapid.IntRange(0, 3).Draw(t, "nd") == 0, Copy: rapid.Bool().Draw(t, "copy"), ViaBlob: rapid.IntRange(0, 2).Draw(t, "viablob") == 0}
	p := profiles[rapid.IntRange(0, len(profiles)-1).Draw(t, "profile")]
	if c.ND {
		n := rapid.IntRange(1, 3).Draw(t, "lines")
		var b bytes.Buffer
		for i := 0; i < n; i++ {
			d := genDoc(t, p)
			line, _ := render(d, layout{Mode: rapid.IntRange(0, 1).Draw(t, "ws"), Seed: uint64(i), NoLF: true})
			b.Write(line)
			b.WriteByte('\n')
		}
		c.Doc = b.Bytes()
	} else {
		d := genDoc(t, p)
		c.Doc, _ = render(d, genLayout(t, false))
	}
	roots, err := parseModelRoots(c.Doc, c.ND)
	if err != nil {
		t.Fatalf("HARNESS-BUG: %v", err)
	}
	n := rapid.IntRange(1, maxOps).Draw(t, "nops")
	for i := 0; i < n; i++ {
		op, ok := genOp(t, roots, mix)
		if !ok {
			break
		}
		// simulate on the model so that later paths stay valid
		if _, _, err := applyModel(roots, op); err != nil {
			t.Fatalf("HARNESS-BUG: %v", err)
		}
		c.Ops = append(c.Ops, op)
	}
	return c
}

func hasNegZero(roots []*rj.Node) bool {
	var rec func(n *rj.Node) bool
	rec = func(n *rj.Node) bool {
		switch n.K {
		case rj.Num:
			return n.NT == 'f' && n.NBits == 1<<63
		case rj.Arr:
			for _, c := range n.A {
				if rec(c) {
					return true
				}
			}
		case rj.Obj:
			for _, m := range n.O {
				if rec(m.Val) {
					return true
				}
			}
		}
		return false
	}
	for _, r := range roots {
		if rec(r) {
			return true
		}
	}
	return false
}
