package props

import (
	"fmt"
	"runtime/debug"
	"syscall"

	simdjson "github.com/minio/simdjson-go"
)

// ---------------------------------------------------------------------------------------------
// Guard-page placement: the input ends exactly at a PROT_NONE page (or starts right after one).

type guardBuf struct {
	mem []byte
	buf []byte
}

const pageSize = 4096

func guardPlace(in []byte, atEnd bool) (*guardBuf, error) {
	n := len(in)
	pages := (n + pageSize - 1) / pageSize
	if pages == 0 {
		pages = 1
	}
	total := (pages + 2) * pageSize
	mem, err := syscall.Mmap(-1, 0, total, syscall.PROT_READ|syscall.PROT_WRITE, syscall.MAP_ANON|syscall.MAP_PRIVATE)
	if err != nil {
		return nil, err
	}
	if err := syscall.Mprotect(mem[:pageSize], syscall.PROT_NONE); err != nil {
		syscall.Munmap(mem)
		return nil, err
	}
	if err := syscall.Mprotect(mem[total-pageSize:], syscall.PROT_NONE); err != nil {
		syscall.Munmap(mem)
		return nil, err
	}
	g := &guardBuf{mem: mem}
	if atEnd {
		g.buf = mem[total-pageSize-n : total-pageSize : total-pageSize]
	} else {
		g.buf = mem[pageSize : pageSize+n : pageSize+n]
	}
	copy(g.buf, in)
	return g, nil
}

func (g *guardBuf) free() {
	if g != nil && g.mem != nil {
		syscall.Munmap(g.mem)
		g.mem = nil
	}
}

// noPanic runs f, converting panics (including memory faults, which SetPanicOnFault turns into panics) into errors.
func noPanic(what string, f func()) (err error) {
	old := debug.SetPanicOnFault(true)
	defer debug.SetPanicOnFault(old)
	defer func() {
		if r := recover(); r != nil {
			err = fmt.Errorf("%s panicked: %v\n%s", what, r, trimStack(debug.Stack()))
		}
	}()
	f()
	return nil
}

// ---------------------------------------------------------------------------------------------
// Exerciser: every public traversal / lookup / marshal method on (a bounded number of) nodes.
// Errors are fine; panics, faults and hangs are not.

type exerciseOpts struct {
	heavy          bool // set per node: also run the calls whose cost is linear in the subtree
	maxNodes       int  // per-node exercising is limited to this many tape positions
	allowInterface bool // Interface/Map recursion (excluded for extreme nesting, see KNOWN_FINDINGS KF-1)
	linearOnly     bool // extreme nesting: the harness's own recursive walkers (W1, W3, W4) would overflow the stack; use the iterative ones
	shared         *exerciseShared
}

// exerciseShared: destination objects that one exercise() call recycles from node to node, as a caller would
type exerciseShared struct {
	els   *simdjson.Elements
	names []string
	obj   simdjson.Object
	arr   simdjson.Array
}

func exercise(pj *simdjson.ParsedJson, o exerciseOpts) error {
	if o.maxNodes == 0 {
		o.maxNodes = 300
	}
	o.shared = &exerciseShared{}
	// whole-tape readers
	var err error
	run := func(what string, f func()) bool {
		if e := noPanic(what, f); e != nil {
			err = e
			return false
		}
		return true
	}
	if !run("walk AdvanceInto (W2)", func() { walkW2(pj) }) {
		return err
	}
	if !o.linearOnly && (!run("walk Advance/typed (W1)", func() { walkW1(pj) }) ||
		!run("walk AdvanceIter (W3)", func() { walkW3(pj) }) ||
		!run("walk ForEach (W4)", func() { walkW4(pj) })) {
		return err
	}
	if o.allowInterface && !run("Iter.Interface on the tape (W5)", func() { walkW5(pj) }) {
		return err
	}
	if !run("Iter.MarshalJSON on the tape", func() { it := pj.Iter(); it.MarshalJSON() }) {
		return err
	}
	if !run("Iter.MarshalJSONBuffer after Advance", func() { it := pj.Iter(); it.Advance(); it.MarshalJSONBuffer(nil) }) {
		return err
	}
	if !run("FindElement from the tape iterator", func() {
		it := pj.Iter()
		it.FindElement(nil, "a")
		it.FindElement(nil, "a", "b")
		it.Advance()
		it.FindElement(nil, "k")
		it.FindElement(nil)
	}) {
		return err
	}
	if !run("Clone", func() { c := pj.Clone(nil); it := c.Iter(); it.MarshalJSON(); pj.Clone(c) }) {
		return err
	}
	if !run("ParsedJson.ForEach with FindElement", func() {
		pj.ForEach(func(i simdjson.Iter) error {
			i.FindElement(nil, "a", "b")
			i.MarshalJSON()
			return nil
		})
	}) {
		return err
	}
	// per-node: calls whose cost is linear in the subtree run on a bounded number of nodes of big tapes
	heavyNodes := o.maxNodes
	if len(pj.Tape) > 400 {
		heavyNodes = 40000 / len(pj.Tape)
		if heavyNodes < 3 {
			heavyNodes = 3
		}
	}
	nodes := 0
	it := pj.Iter()
	for nodes < o.maxNodes {
		var tag simdjson.Tag
		if !run("AdvanceInto", func() { tag = it.AdvanceInto() }) {
			return err
		}
		if tag == simdjson.TagEnd {
			break
		}
		nodes++
		cp := it
		o.heavy = nodes <= heavyNodes
		if e := exerciseNode(&cp, o); e != nil {
			return e
		}
	}
	// the same through Advance (skip mode) from the top and one level down
	if !run("Advance loop", func() {
		a := pj.Iter()
		for k := 0; k < o.maxNodes; k++ {
			if a.Advance() == simdjson.TypeNone {
				break
			}
			cp := a
			o.heavy = k < heavyNodes
			if e := exerciseNode(&cp, o); e != nil {
				panic(e)
			}
		}
	}) {
		return err
	}
	return nil
}

func exerciseNode(it *simdjson.Iter, o exerciseOpts) error {
	var err error
	run := func(what string, f func()) bool {
		if e := noPanic(what+fmt.Sprintf(" (node type %v)", it.Type()), f); e != nil {
			err = e
			return false
		}
		return true
	}
	ok := run("scalar accessors", func() {
		it.Type()
		it.PeekNext()
		it.PeekNextTag()
		it.Float()
		it.FloatFlags()
		it.Int()
		it.Uint()
		it.String()
		it.StringBytes()
		it.StringCvt()
		it.Bool()
	})
	if !ok {
		return err
	}
	if !o.heavy {
		return nil
	}
	ok = run("MarshalJSON", func() { c := *it; c.MarshalJSON() }) &&
		run("Root", func() { c := *it; c.Root(nil); var d simdjson.Iter; c2 := *it; c2.Root(&d) }) &&
		run("FindElement", func() { var e simdjson.Element; it.FindElement(&e, "a"); it.FindElement(nil, "", "a") }) &&
		run("AdvanceIter", func() { c := *it; var d simdjson.Iter; c.AdvanceIter(&d); d.MarshalJSON(); c.AdvanceIter(&c) })
	if !ok {
		return err
	}
	if o.allowInterface && !run("Interface", func() { c := *it; c.Interface() }) {
		return err
	}
	if it.Type() == simdjson.TypeObject {
		ok = run("Object()", func() {
			c := *it
			obj, e := c.Object(nil)
			if e != nil {
				return
			}
			o1 := *obj
			if o.allowInterface {
				o1.Map(nil)
			}
			o2 := *obj
			els, _ := o2.Parse(nil)
			if els != nil {
				els.MarshalJSON()
				els.Lookup("a")
				els.Lookup("")
				o2b := *obj
				o2b.Parse(els)
			}
			if sh := o.shared; sh != nil {
				// one Elements destination for every object of the document; look up the previous object's names
				c5 := *it
				if o5, e := c5.Object(&sh.obj); e == nil {
					if els2, e := o5.Parse(sh.els); e == nil && els2 != nil {
						for _, k := range sh.names {
							els2.Lookup(k)
						}
						sh.names = sh.names[:0]
						for i, el := range els2.Elements {
							if i < 64 {
								sh.names = append(sh.names, el.Name)
							}
						}
						els2.MarshalJSON()
						sh.els = els2
					}
				}
			}
			o3 := *obj
			o3.FindKey("a", nil)
			o3.FindKey("", nil)
			var el simdjson.Element
			o3.FindKey("k", &el)
			o3.FindPath(nil, "a", "b")
			o3.FindPath(nil, "k")
			o3.FindPath(nil)
			o3.ForEach(func(key []byte, i simdjson.Iter) { i.Type(); i.StringCvt() }, nil)
			o3.ForEach(func(key []byte, i simdjson.Iter) {}, map[string]struct{}{"a": {}, "k": {}})
			o4 := *obj
			var tmp simdjson.Iter
			for k := 0; k < 10000; k++ {
				_, t, e := o4.NextElement(&tmp)
				if e != nil || t == simdjson.TypeNone {
					break
				}
				tmp.MarshalJSON()
			}
		})
	}
	if it.Type() == simdjson.TypeArray {
		ok = run("Array()", func() {
			c := *it
			arr, e := c.Array(nil)
			if e != nil {
				return
			}
			a1 := *arr
			if o.allowInterface {
				a1.Interface()
			}
			a2 := *arr
			a2.AsFloat()
			a3 := *arr
			a3.AsInteger()
			a4 := *arr
			a4.AsUint64()
			a5 := *arr
			a5.AsString()
			a6 := *arr
			a6.AsStringCvt()
			a7 := *arr
			a7.MarshalJSON()
			a7.FirstType()
			a7.ForEach(func(i simdjson.Iter) { i.Type(); i.StringCvt() })
			ai := a7.Iter()
			for k := 0; k < 10000 && ai.Advance() != simdjson.TypeNone; k++ {
			}
			// the same calls one after the other on ONE Array value, in two orders: some of them advance the Array
			// they are called on, and whatever they leave behind must not make a later call panic
			a8 := *arr
			a8.AsFloat()
			a8.AsString()
			a8.AsInteger()
			a8.AsStringCvt()
			a8.AsUint64()
			a8.MarshalJSON()
			a8.FirstType()
			a8.AsFloat()
			if o.allowInterface {
				a8.Interface()
			}
			a8.ForEach(func(i simdjson.Iter) { i.Type() })
			a9 := *arr
			a9.AsUint64()
			a9.AsStringCvt()
			a9.AsInteger()
			a9.AsString()
			a9.DeleteElems(func(i simdjson.Iter) bool { return false })
		})
	}
	if !ok {
		return err
	}
	return nil
}
