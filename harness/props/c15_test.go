package props

import (
	"bytes"
	"encoding/json"
	"fmt"
	"strconv"
	"strings"
	"testing"

	simdjson "github.com/minio/simdjson-go"
	"pgregory.net/rapid"

	rj "verifharness/internal/refjson"
)

// C15: reusing a ParsedJson or Serializer never leaks earlier state.

type reuseStep struct {
	Kind  string `json:"kind"`  // parse | parseND | edit | serialize | deserialize
	Input []byte `json:"input"` // document text for parse steps
	Copy  bool   `json:"copy"`
	NoOpt bool   `json:"noopt"` // call without any option (the documented default is to copy strings)
	ByVal bool   `json:"byval"` // the reuse argument is a value copy of the pooled ParsedJson (ParsedJson is a plain struct)
	Slot  int    `json:"slot"`  // pool slot whose object is passed as reuse / destination / source (-1: none)
	Ser   int    `json:"ser"`   // serializer slot
	Mode  int    `json:"mode"`
	Edit  int    `json:"edit"` // edit selector
}

type c15Case struct {
	Steps []reuseStep `json:"steps"`
}

const c15Slots = 3

// canonOf renders a result with W1 (types, flags, order) and W2; they must agree.
// c15W1: W1 state shared by all walks of one C15 case (reset when a case starts; C15 cases run on one goroutine).
var c15W1 = &w1State{}

func canonOf(pj *simdjson.ParsedJson) ([]byte, error) {
	a, err := walkW1State(pj, c15W1)
	if err != nil {
		return nil, err
	}
	b, err := walkW2(pj)
	if err != nil {
		return nil, err
	}
	if !bytes.Equal(a, b) {
		return nil, fmt.Errorf("walkers disagree: %s", diffCanon(a, b))
	}
	return a, nil
}

func c15Check(c c15Case) error {
	c15W1 = &w1State{}
	pool := make([]*simdjson.ParsedJson, c15Slots)
	model := make([][]byte, c15Slots) // canonical form each pooled object must expose (nil: unknown / dead)
	sers := []*simdjson.Serializer{simdjson.NewSerializer(), simdjson.NewSerializer()}
	var lastBlob, olderBlob []byte
	var lastBlobCanon []byte
	for i, st := range c.Steps {
		slot := st.Slot
		where := fmt.Sprintf("step %d (%s slot=%d copy=%v mode=%d, input %d bytes %q)", i, st.Kind, slot, st.Copy, st.Mode%4, len(st.Input), clip(st.Input))
		switch st.Kind {
		case "parse", "parseND":
			nd := st.Kind == "parseND"
			var reuse *simdjson.ParsedJson
			if slot >= 0 {
				reuse = pool[slot]
				if st.ByVal && reuse != nil {
					cp := *reuse
					reuse = &cp
				}
			}
			// reference: the same call on fresh objects
			var fresh *simdjson.ParsedJson
			var ferr error
			if nd {
				fresh, ferr = simdjson.ParseND(append([]byte(nil), st.Input...), nil, simdjson.WithCopyStrings(st.Copy))
			} else {
				fresh, ferr = simdjson.Parse(append([]byte(nil), st.Input...), nil, simdjson.WithCopyStrings(st.Copy))
			}
			in := append([]byte(nil), st.Input...)
			var got *simdjson.ParsedJson
			var gerr error
			switch {
			case st.NoOpt && nd:
				got, gerr = simdjson.ParseND(in, reuse)
			case st.NoOpt:
				got, gerr = simdjson.Parse(in, reuse)
			case nd:
				got, gerr = simdjson.ParseND(in, reuse, simdjson.WithCopyStrings(st.Copy))
			default:
				got, gerr = simdjson.Parse(in, reuse, simdjson.WithCopyStrings(st.Copy))
			}
			if (ferr == nil) != (gerr == nil) {
				return fmt.Errorf("%s: with the reused object err=%v, without reuse err=%v", where, gerr, ferr)
			}
			if gerr != nil {
				// the caller keeps its (possibly scribbled) object; it is only good as a reuse argument now
				if slot >= 0 {
					model[slot] = nil
					if st.ByVal && reuse != nil {
						pool[slot] = reuse // the copy that was handed in (it still carries the parser state)
					}
				}
				continue
			}
			want, err := canonOf(fresh)
			if err != nil {
				return bugf("%s: fresh result not traversable: %v", where, err)
			}
			// and against the reference parser
			if !nd {
				if m, err := rj.ParseStrict(st.Input); err == nil {
					if rj.ResolveNumbers(m) == nil {
						if ref := canonNode(nil, m, canonOpts{}); !bytes.Equal(ref, want) {
							return fmt.Errorf("%s: fresh parse differs from the reference document: %s", where, diffCanon(ref, want))
						}
					}
				}
			}
			gotC, err := canonOf(got)
			if err != nil {
				return fmt.Errorf("%s: result obtained with reuse is not traversable: %v", where, err)
			}
			if !bytes.Equal(want, gotC) {
				return fmt.Errorf("%s: result obtained with reuse differs from a fresh parse: %s", where, diffCanon(want, gotC))
			}
			if _, err := tapeCheck(got, true); err != nil {
				return fmt.Errorf("%s: tape format: %v", where, err)
			}
			if st.Copy || st.NoOpt {
				// copy mode (asked for explicitly, or by default when no option is given): the caller may recycle its input buffer at once
				for k := range in {
					in[k] = 0xff
				}
				after, err := canonOf(got)
				if err != nil || !bytes.Equal(after, want) {
					return fmt.Errorf("%s: parsed with string copying into a reused object, but overwriting the input buffer afterwards changed the document (the string mode of an earlier call leaked): %v %s", where, err, diffCanon(want, after))
				}
			}
			// marshalled text must be the same as well (exercises Message/Strings bookkeeping)
			fi, gi := fresh.Iter(), got.Iter()
			fm, ferr2 := fi.MarshalJSON()
			gm, gerr2 := gi.MarshalJSON()
			if (ferr2 == nil) != (gerr2 == nil) || !bytes.Equal(fm, gm) {
				return fmt.Errorf("%s: MarshalJSON differs: with reuse %q (%v), fresh %q (%v)", where, clip(gm), gerr2, clip(fm), ferr2)
			}
			tgt := slot
			if tgt < 0 {
				tgt = i % c15Slots
			}
			pool[tgt] = got
			model[tgt] = want
		case "reset":
			// ParsedJson.Reset is one more "earlier call on that object"; what the object exposes afterwards is not
			// claimed, only that it is as good a reuse argument / destination as any
			if slot < 0 || pool[slot] == nil || model[slot] == nil {
				continue
			}
			pool[slot].Reset()
			model[slot] = nil
		case "edit":
			if slot < 0 || pool[slot] == nil || model[slot] == nil {
				continue
			}
			// a simple in-place edit: SetNull / SetInt / SetString on the k-th scalar, or a deletion that leaves a run of
			// NOP entries; the model is re-read afterwards
			if st.Edit%4 == 3 {
				di := pool[slot].Iter()
				for {
					tag := di.AdvanceInto()
					if tag == simdjson.TagEnd {
						break
					}
					if tag == simdjson.TagArrayStart {
						if arr, err := di.Array(nil); err == nil {
							n := 0
							arr.DeleteElems(func(simdjson.Iter) bool { n++; return n%3 != 0 })
						}
						break
					}
					if tag == simdjson.TagObjectStart && st.Edit%8 == 7 {
						if obj, err := di.Object(nil); err == nil {
							n := 0
							obj.DeleteElems(func([]byte, simdjson.Iter) bool { n++; return n%2 == 1 }, nil)
						}
						break
					}
				}
			}
			it := pool[slot].Iter()
			k := 0
			for {
				tag := it.AdvanceInto()
				if tag == simdjson.TagEnd {
					break
				}
				ty := tag.Type()
				if ty == simdjson.TypeInt || ty == simdjson.TypeFloat || ty == simdjson.TypeUint {
					if k == st.Edit%7 {
						switch st.Edit % 3 {
						case 0:
							it.SetNull()
						case 1:
							it.SetInt(int64(st.Edit))
						default:
							it.SetString(strings.Repeat("edited", 1+st.Edit%50))
						}
						break
					}
					k++
				}
			}
			cn, err := canonOf(pool[slot])
			if err != nil {
				return fmt.Errorf("%s: edited object not traversable: %v", where, err)
			}
			model[slot] = cn
		case "serialize":
			if slot < 0 || pool[slot] == nil || model[slot] == nil {
				continue
			}
			s := sers[st.Ser%len(sers)]
			s.CompressMode(simdjson.CompressMode(st.Mode % 4))
			blob := s.Serialize(nil, *pool[slot])
			// reference: a fresh Serializer reads it back to the same document
			back, err := simdjson.NewSerializer().Deserialize(append([]byte(nil), blob...), nil)
			if err != nil {
				return fmt.Errorf("%s: blob written by the reused Serializer cannot be read: %v", where, err)
			}
			bc, err := canonOf(back)
			if err != nil {
				return fmt.Errorf("%s: %v", where, err)
			}
			if !bytes.Equal(bc, model[slot]) {
				return fmt.Errorf("%s: blob written by the reused Serializer denotes a different document: %s", where, diffCanon(model[slot], bc))
			}
			if lastBlob != nil && !bytes.Equal(lastBlob, blob) {
				olderBlob = lastBlob
			}
			lastBlob, lastBlobCanon = blob, model[slot]
		case "deserialize":
			if lastBlob == nil {
				continue
			}
			s := sers[st.Ser%len(sers)]
			s.CompressMode(simdjson.CompressMode(st.Mode % 4))
			if st.Edit%3 == 0 {
				// first a call that fails late (damaged header of the last block) on the same Serializer: the
				// following good call must not be disturbed by anything the failed one left running
				src := lastBlob
				if olderBlob != nil {
					src = olderBlob // a different document, so that anything the failed call leaves behind is visible
				}
				bad := append([]byte(nil), src...)
				if f, _, err := walkFrame(bad); err == nil && f.vals.present && len(f.vals.data) > 0 {
					bad[len(bad)-len(f.vals.data)-1] = 0x7f // unknown block type of the values block
					var bdst *simdjson.ParsedJson
					if slot >= 0 {
						bdst = pool[slot] // the destination of the good call below: whatever the failed call leaves running must not reach it
						model[slot] = nil
					}
					if _, err := s.Deserialize(bad, bdst); err == nil {
						return fmt.Errorf("%s: Deserialize accepted a blob with an unknown block type", where)
					}
				}
			}
			if st.Edit%3 == 1 {
				// a blob one of whose blocks is stored empty although a size is declared for it: whatever the outcome
				// is, it is the same with the pooled Serializer and destination as with fresh ones
				src := lastBlob
				if olderBlob != nil {
					src = olderBlob
				}
				if rb, err := decodeBlob(src); err == nil {
					rb.emptyBlock[(st.Edit/3)%3] = true
					bad := rb.encode()
					var fres, gres *simdjson.ParsedJson
					var ferr, gerr error
					if perr := noPanic("Deserialize of a blob with an empty stored block (fresh objects)", func() { fres, ferr = simdjson.NewSerializer().Deserialize(append([]byte(nil), bad...), nil) }); perr != nil {
						return fmt.Errorf("%s: %v", where, perr)
					}
					var bdst *simdjson.ParsedJson
					if slot >= 0 {
						bdst = pool[slot]
						model[slot] = nil
					}
					if perr := noPanic("Deserialize of a blob with an empty stored block (pooled objects)", func() { gres, gerr = s.Deserialize(append([]byte(nil), bad...), bdst) }); perr != nil {
						return fmt.Errorf("%s: %v", where, perr)
					}
					if (ferr == nil) != (gerr == nil) {
						return fmt.Errorf("%s: a blob with an empty stored block: fresh Serializer and destination err=%v, pooled ones err=%v", where, ferr, gerr)
					}
					if ferr == nil {
						fc, e1 := canonOf(fres)
						gc, e2 := canonOf(gres)
						if (e1 == nil) != (e2 == nil) || (e1 == nil && !bytes.Equal(fc, gc)) {
							return fmt.Errorf("%s: a blob with an empty stored block is accepted, but denotes different documents with fresh objects and with pooled ones: %v / %v %s", where, e1, e2, diffCanon(fc, gc))
						}
					}
				}
			}
			var dst *simdjson.ParsedJson
			if slot >= 0 {
				dst = pool[slot]
			}
			out, err := s.Deserialize(append([]byte(nil), lastBlob...), dst)
			if err != nil {
				return fmt.Errorf("%s: Deserialize into a reused destination failed: %v", where, err)
			}
			if st.Edit%3 == 0 && olderBlob != nil && len(olderBlob) > 4000 {
				// big blobs: the failing call's decompression takes a while; repeat the failing/good pair so that a
				// goroutine the failed call might leave behind overlaps the good call at least once
				bad := append([]byte(nil), olderBlob...)
				if f, _, ferr := walkFrame(bad); ferr == nil && f.vals.present && len(f.vals.data) > 0 {
					bad[len(bad)-len(f.vals.data)-1] = 0x7f
					for rep := 0; rep < 12; rep++ {
						s.Deserialize(bad, out)
						out, err = s.Deserialize(append([]byte(nil), lastBlob...), out)
						if err != nil {
							return fmt.Errorf("%s: Deserialize after a failed Deserialize on the same Serializer failed: %v", where, err)
						}
						oc, err := canonOf(out)
						if err != nil || !bytes.Equal(oc, lastBlobCanon) {
							return fmt.Errorf("%s: Deserialize right after a failed Deserialize (same Serializer and destination) gives a different document: %v %s", where, err, diffCanon(lastBlobCanon, oc))
						}
					}
				}
			}
			oc, err := canonOf(out)
			if err != nil {
				return fmt.Errorf("%s: %v", where, err)
			}
			if !bytes.Equal(oc, lastBlobCanon) {
				return fmt.Errorf("%s: Deserialize into a reused destination gives a different document: %s", where, diffCanon(lastBlobCanon, oc))
			}
			if _, err := tapeCheck(out, true); err != nil {
				return fmt.Errorf("%s: tape format: %v", where, err)
			}
			// the result is a tape like any other: serializing it again must work and denote the same document
			var blob2 []byte
			if perr := noPanic("Serialize of a tape deserialized into a reused destination", func() { blob2 = simdjson.NewSerializer().Serialize(nil, *out) }); perr != nil {
				return fmt.Errorf("%s: %v", where, perr)
			}
			back2, err := simdjson.NewSerializer().Deserialize(blob2, nil)
			if err != nil {
				return fmt.Errorf("%s: re-serialized tape cannot be read: %v", where, err)
			}
			if bc2, err := canonOf(back2); err != nil || !bytes.Equal(bc2, lastBlobCanon) {
				return fmt.Errorf("%s: re-serializing the tape gives a different document: %v %s", where, err, diffCanon(lastBlobCanon, bc2))
			}
			tgt := slot
			if tgt < 0 {
				tgt = i % c15Slots
			}
			pool[tgt] = out
			model[tgt] = oc
		}
		// every live pooled object still exposes its document (no call may disturb objects it was not given)
		for s := range pool {
			if pool[s] != nil && model[s] != nil {
				cn, err := canonOf(pool[s])
				if err != nil || !bytes.Equal(cn, model[s]) {
					return fmt.Errorf("after %s: pooled object %d changed although it was not passed to the call: %v %s", where, s, err, diffCanon(model[s], cn))
				}
			}
		}
	}
	return nil
}

var c15Run = register("C15", "history", c15Check)

// input classes: valid / stage-1-invalid / stage-2-invalid x size classes
func genReuseInput(t *rapid.T) ([]byte, string) {
	size := rapid.IntRange(0, 3).Draw(t, "size")
	validity := rapid.IntRange(0, 3).Draw(t, "validity")
	var b bytes.Buffer
	var n int
	switch size {
	case 0:
		n = rapid.IntRange(0, 5).Draw(t, "n")
	case 1:
		n = rapid.IntRange(50, 700).Draw(t, "n") // < 8 KiB
	case 2:
		n = rapid.IntRange(1200, 4000).Draw(t, "n") // > 8 KiB
	default:
		n = rapid.IntRange(12000, 30000).Draw(t, "n") // > 16 index buffers
	}
	kind := rapid.IntRange(0, 3).Draw(t, "elem")
	if kind == 3 && size == 1 {
		n = rapid.IntRange(1500, 4000).Draw(t, "ndense") // still below 8 KiB, but several index buffers of structurals
	}
	b.WriteByte('[')
	for i := 0; i < n; i++ {
		if i > 0 {
			b.WriteByte(',')
		}
		switch kind {
		case 3:
			b.WriteByte(byte('0' + i%10))
		case 0:
			b.WriteString(strconv.Itoa(i))
		case 1:
			b.WriteString(`"s` + strconv.Itoa(i%13) + `\n"`)
		default:
			b.WriteString(`{"k":` + strconv.Itoa(i) + `,"v":[true,null]}`)
		}
	}
	b.WriteByte(']')
	text := b.Bytes()
	class := []string{"tiny", "<8KiB", ">8KiB", ">16buffers"}[size]
	switch validity {
	case 0, 1:
		return text, "valid/" + class
	case 2: // stage-2 error: missing comma / bad atom somewhere
		pos := rapid.IntRange(0, len(text)-1).Draw(t, "errpos")
		if rapid.Bool().Draw(t, "early") {
			pos = rapid.IntRange(0, 20).Draw(t, "earlypos") % len(text) // an early error leaves most index buffers unconsumed
		}
		cp := append([]byte(nil), text...)
		switch rapid.IntRange(0, 2).Draw(t, "s2kind") {
		case 0:
			cp[pos] = ' '
			if cp[pos] == text[pos] {
				cp[pos] = ':'
			}
		case 1:
			cp = append(cp[:pos], append([]byte("tru,"), cp[pos:]...)...)
		default:
			cp = cp[:len(cp)-1] // unbalanced
			cp = append(cp, '}')
		}
		return cp, "stage2-invalid/" + class
	default: // stage-1 error: unterminated string, raw control character, or no structurals at the end
		cp := append([]byte(nil), text...)
		switch rapid.IntRange(0, 2).Draw(t, "s1kind") {
		case 0:
			pos := rapid.IntRange(0, len(cp)-1).Draw(t, "qpos")
			cp = append(cp[:pos], append([]byte(`"`), cp[pos:]...)...)
		case 1:
			if i := bytes.IndexByte(cp, '"'); i >= 0 && kind == 1 {
				cp[i+1] = 0x01
			} else {
				cp = append([]byte(`["a`+"\x01"+`",`), cp[1:]...)
			}
		default:
			cp = append(cp, []byte(` "tail`)...)
		}
		return cp, "stage1-invalid/" + class
	}
}

func TestC15_Histories(t *testing.T) {
	runRapid(t, "C15_Histories", nCases(15_000, 150_000), func(t *rapid.T) {
		maxSteps := 15
		if thorough() {
			maxSteps = 40
		}
		n := rapid.IntRange(2, maxSteps).Draw(t, "nsteps")
		var c c15Case
		classes := map[string]bool{}
		prevFailed := false
		failThenReuse := false
		transitions := false
		lastLarge, lastND, lastNoCopy := false, false, false
		for i := 0; i < n; i++ {
			st := reuseStep{Slot: rapid.IntRange(-1, c15Slots-1).Draw(t, "slot"), Ser: rapid.IntRange(0, 1).Draw(t, "ser"), Mode: rapid.IntRange(0, 3).Draw(t, "mode"), Edit: rapid.IntRange(0, 200).Draw(t, "edit")}
			k := rapid.IntRange(0, 9).Draw(t, "kind")
			if prevFailed && rapid.IntRange(0, 3).Draw(t, "retry") != 0 {
				k = 0 // bias: an immediate reuse after a failed parse
			}
			switch {
			case k <= 4:
				st.Kind = "parse"
				if rapid.IntRange(0, 3).Draw(t, "nd") == 0 {
					st.Kind = "parseND"
				}
				var cl string
				st.Input, cl = genReuseInput(t)
				// line structure: the newline handling of ParseND must not survive into a later Parse on the same
				// object (and the other way round). The oracle is the same call on a fresh object, so any layout is fair.
				switch lay := rapid.IntRange(0, 5).Draw(t, "layout"); {
				case lay == 0 && len(st.Input) < 40000: // a line break after every comma outside strings
					var nb []byte
					inStr := false
					for j, ch := range st.Input {
						nb = append(nb, ch)
						if ch == '"' && (j == 0 || st.Input[j-1] != '\\') {
							inStr = !inStr
						}
						if ch == ',' && !inStr {
							nb = append(nb, '\n')
						}
					}
					st.Input = nb
					cl += "/pretty"
				case lay == 1 || (lay <= 3 && st.Kind == "parseND"): // two documents on two lines
					st.Input = append(append(append([]byte(nil), st.Input...), '\n'), st.Input...)
					if st.Kind == "parse" && !strings.Contains(cl, "invalid") {
						cl = "two-documents-invalid/" + cl[strings.IndexByte(cl, '/')+1:]
					}
					cl += "/two-lines"
				}
				st.Copy = rapid.Bool().Draw(t, "copy")
				st.NoOpt = rapid.IntRange(0, 2).Draw(t, "noopt") == 0
				st.ByVal = rapid.IntRange(0, 3).Draw(t, "byval") == 0
				if st.NoOpt {
					st.Copy = true // the reference call and the bookkeeping use the default
				}
				classes[cl] = true
				invalid := strings.Contains(cl, "invalid")
				if prevFailed && !invalid && st.Slot >= 0 {
					failThenReuse = true
				}
				large := strings.Contains(cl, ">")
				if (lastLarge && !large) || (lastND && st.Kind == "parse") || (lastNoCopy && st.Copy) {
					transitions = true
				}
				lastLarge, lastND, lastNoCopy = large, st.Kind == "parseND", !st.Copy
				prevFailed = invalid && st.Slot >= 0
			case k <= 5:
				st.Kind = "edit"
				if rapid.IntRange(0, 2).Draw(t, "reset") == 0 {
					st.Kind = "reset"
				}
			case k <= 7:
				st.Kind = "serialize"
			default:
				st.Kind = "deserialize"
			}
			if prevFailed && len(c.Steps) > 0 && c.Steps[len(c.Steps)-1].Kind[0] == 'p' && st.Kind[0] == 'p' && st.Slot >= 0 {
				st.Slot = c.Steps[len(c.Steps)-1].Slot
				if st.Slot < 0 {
					st.Slot = 0
				}
			}
			c.Steps = append(c.Steps, st)
		}
		c15Run(t, c)
		cl := col("C15")
		b, _ := json.Marshal(c)
		cls := []string{fmt.Sprintf("steps:%d", bucket(len(c.Steps))), boolClass("fail-then-reuse", failThenReuse), boolClass("transition", transitions)}
		for k := range classes {
			cls = append(cls, "input:"+k)
		}
		has := map[string]bool{}
		for _, st := range c.Steps {
			has["has:"+st.Kind] = true
			if st.ByVal && st.Slot >= 0 && st.Kind[0] == 'p' {
				has["has:reuse-by-value-copy"] = true
			}
			if st.NoOpt && st.Kind[0] == 'p' {
				has["has:call-without-options"] = true
			}
		}
		for k := range has {
			cls = append(cls, k)
		}
		cl.Eval(failThenReuse || transitions, evidHash(b), cls...)
		cl.Sample(func() interface{} {
			var s []string
			for _, st := range c.Steps {
				s = append(s, fmt.Sprintf("%s slot=%d copy=%v mode=%d in=%dB", st.Kind, st.Slot, st.Copy, st.Mode, len(st.Input)))
			}
			return s
		})
	})
	col("C15").Completed("TestC15_Histories")
}

// TestC15_FailedThenGood: a Deserialize call that fails late (after its string and tag sections have been handed to
// background decompression) followed at once by a good call on the same Serializer and destination. The sections are
// made large, so that anything the failed call leaves running would still be running.
type c15FailGood struct {
	NA       int `json:"na"`
	NB       int `json:"nb"`
	ModeA    int `json:"mode_a"`
	ModeB    int `json:"mode_b"`
	Attempts int `json:"attempts"`
	DamageAt int `json:"damage_at"` // 0: values block type, 1: values size varint made huge, 2: last value byte dropped
}

func bigStringDoc(prefix string, n int, atom string) []byte {
	var b bytes.Buffer
	b.WriteByte('[')
	for i := 0; i < n; i++ {
		if i > 0 {
			b.WriteByte(',')
		}
		if i%2 == 0 {
			b.WriteString(`"` + prefix + strconv.Itoa(1000000+i) + `-` + strings.Repeat(prefix[:1], 16) + `"`)
		} else {
			b.WriteString(atom)
		}
	}
	b.WriteByte(']')
	return b.Bytes()
}

func c15FailGoodCheck(c c15FailGood) error {
	c15W1 = &w1State{}
	docA := bigStringDoc("alpha-", c.NA, "true")
	docB := bigStringDoc("BRAVO-", c.NB, "null")
	pjA, err := simdjson.Parse(docA, nil)
	if err != nil {
		return bugf("%v", err)
	}
	pjB, err := simdjson.Parse(docB, nil)
	if err != nil {
		return bugf("%v", err)
	}
	sa := simdjson.NewSerializer()
	sa.CompressMode(simdjson.CompressMode(c.ModeA % 4))
	serA := sa.Serialize(nil, *pjA)
	bad := append([]byte(nil), serA...)
	f, _, ferr := walkFrame(bad)
	if ferr != nil || !f.vals.present || len(f.vals.data) == 0 {
		return bugf("cannot locate the values block: %v", ferr)
	}
	switch c.DamageAt % 3 {
	case 0:
		bad[len(bad)-len(f.vals.data)-1] = 0x7f // unknown block type
	case 1:
		bad = bad[:len(bad)-1] // values block shorter than declared
	default:
		bad[len(bad)-len(f.vals.data)-1] ^= 3 // another (wrong) block type
	}
	sb := simdjson.NewSerializer()
	sb.CompressMode(simdjson.CompressMode(c.ModeB % 4))
	serB := sb.Serialize(nil, *pjB)
	want, err := canonOf(pjB)
	if err != nil {
		return bugf("%v", err)
	}
	shared := simdjson.NewSerializer()
	if _, err := shared.Deserialize(serA, nil); err != nil {
		return fmt.Errorf("warm-up Deserialize failed: %v", err)
	}
	dst, err := shared.Deserialize(serB, nil)
	if err != nil {
		return fmt.Errorf("warm-up Deserialize failed: %v", err)
	}
	for a := 0; a < c.Attempts; a++ {
		if _, err := shared.Deserialize(bad, dst); err == nil {
			// a wrong-but-valid block type may still decode: not what this check is about
			if c.DamageAt%3 == 0 {
				return fmt.Errorf("Deserialize accepted a blob with an unknown block type")
			}
		}
		got, err := shared.Deserialize(serB, dst)
		if err != nil {
			return fmt.Errorf("attempt %d: a good blob is rejected right after a failed Deserialize on the same Serializer and destination: %v", a, err)
		}
		gc, err := canonOf(got)
		if err != nil || !bytes.Equal(gc, want) {
			return fmt.Errorf("attempt %d: Deserialize right after a failed Deserialize (same Serializer and destination, modes %d then %d) returns a different document: %v %s", a, c.ModeA%4, c.ModeB%4, err, diffCanon(want, gc))
		}
		dst = got
	}
	return nil
}

var c15FailGoodRun = register("C15", "failed-then-good", c15FailGoodCheck)

func TestC15_FailedThenGood(t *testing.T) {
	r := newPRNG("C15_FailedThenGood")
	n := nCases(48, 800)
	for i := 0; i < n; i++ {
		c := c15FailGood{NA: 150000 + r.intn(250000), NB: 40000 + r.intn(80000), ModeA: 1 + r.intn(3), ModeB: r.intn(4), Attempts: 25, DamageAt: r.intn(3)}
		if r.intn(3) == 0 {
			c.ModeB = 0 // plain copy: the good call reaches its tape rebuild at once
		}
		c15FailGoodRun(t, c)
		b, _ := json.Marshal(c)
		col("C15").Eval(true, evidHash(b), "failed-then-good-deserialize")
	}
	col("C15").Completed("TestC15_FailedThenGood")
}

// ---------------------------------------------------------------------------------------------
// Shared input buffer: a caller that reads successive documents into ONE buffer and hands the previous result back as
// the reuse argument (the usual way of using the reuse parameter). Whatever the parser remembers about an earlier
// input - cached copies of the message tail, slices into the buffer, lengths - must not survive into the next call,
// in particular not when the next document has the same length and layout as the previous one.

type c15SharedBuf struct {
	Docs  [][]byte `json:"docs"`
	ND    []bool   `json:"nd"`
	Mode  []int    `json:"mode"`  // 0 WithCopyStrings(true), 1 WithCopyStrings(false), 2 no option
	ByVal []bool   `json:"byval"` // pass a value copy of the previous result as the reuse argument
	Shift []int    `json:"shift"` // start offset of the document inside the shared buffer (0..63)
}

// sameLengthSibling returns text with digits and letters changed but every token's length, kind and position kept.
func sameLengthSibling(text []byte, seed uint64) []byte {
	out := append([]byte(nil), text...)
	next := func() uint64 {
		seed += 0x9e3779b97f4a7c15
		z := seed
		z = (z ^ (z >> 30)) * 0xbf58476d1ce4e5b9
		z = (z ^ (z >> 27)) * 0x94d049bb133111eb
		return z ^ (z >> 31)
	}
	inStr, inExp := false, false
	for i := 0; i < len(out); i++ {
		c := out[i]
		if inStr {
			switch {
			case c == '\\':
				if i+1 < len(out) && out[i+1] == 'u' {
					i += 5
				} else {
					i++
				}
			case c == '"':
				inStr = false
			case c >= 'a' && c <= 'z':
				if next()%3 != 0 {
					out[i] = byte('a' + next()%26)
				}
			}
			continue
		}
		switch {
		case c == '"':
			inStr = true
			inExp = false
		case c == 'e' || c == 'E':
			inExp = true // exponent digits stay (the value has to remain finite); also covers the e of true/false
		case c >= '1' && c <= '9':
			if !inExp && next()%3 != 0 {
				out[i] = byte('1' + next()%9)
			}
		case c == '0' || c == '+' || c == '-' || c == '.':
		default:
			inExp = false
		}
	}
	return out
}

func c15SharedBufCheck(c c15SharedBuf) error {
	c15W1 = &w1State{}
	max := 0
	for _, d := range c.Docs {
		if len(d) > max {
			max = len(d)
		}
	}
	buf := make([]byte, max+64)
	var pj *simdjson.ParsedJson
	var prevCanon []byte // what pj exposed when it was read, if it was parsed with copying
	for i, d := range c.Docs {
		nd, mode, byVal, shift := c.ND[i%len(c.ND)], c.Mode[i%len(c.Mode)], c.ByVal[i%len(c.ByVal)], c.Shift[i%len(c.Shift)]%64
		where := fmt.Sprintf("document %d of %d in the shared buffer (nd=%v mode=%d byval=%v offset=%d, %d bytes %q)", i, len(c.Docs), nd, mode, byVal, shift, len(d), clip(d))
		// the caller refills its buffer
		for k := range buf {
			buf[k] = ' '
		}
		in := buf[shift : shift+len(d)]
		copy(in, d)
		if pj != nil && prevCanon != nil {
			after, err := canonOf(pj)
			if err != nil || !bytes.Equal(after, prevCanon) {
				return fmt.Errorf("%s: the previous result was parsed with string copying, but refilling the input buffer changed it: %v %s", where, err, diffCanon(prevCanon, after))
			}
		}
		copyMode := mode != 1
		var fresh *simdjson.ParsedJson
		var ferr error
		if nd {
			fresh, ferr = simdjson.ParseND(append([]byte(nil), d...), nil, simdjson.WithCopyStrings(copyMode))
		} else {
			fresh, ferr = simdjson.Parse(append([]byte(nil), d...), nil, simdjson.WithCopyStrings(copyMode))
		}
		reuse := pj
		if byVal && pj != nil {
			cp := *pj
			reuse = &cp
		}
		var got *simdjson.ParsedJson
		var gerr error
		switch {
		case mode == 2 && nd:
			got, gerr = simdjson.ParseND(in, reuse)
		case mode == 2:
			got, gerr = simdjson.Parse(in, reuse)
		case nd:
			got, gerr = simdjson.ParseND(in, reuse, simdjson.WithCopyStrings(copyMode))
		default:
			got, gerr = simdjson.Parse(in, reuse, simdjson.WithCopyStrings(copyMode))
		}
		if (ferr == nil) != (gerr == nil) {
			return fmt.Errorf("%s: with the reused object err=%v, on fresh objects err=%v", where, gerr, ferr)
		}
		if gerr != nil {
			prevCanon = nil
			if byVal && reuse != nil {
				pj = reuse
			}
			continue
		}
		want, err := canonOf(fresh)
		if err != nil {
			return bugf("%s: fresh result not traversable: %v", where, err)
		}
		if !nd {
			if m, err := rj.ParseStrict(d); err == nil && rj.ResolveNumbers(m) == nil {
				if ref := canonNode(nil, m, canonOpts{}); !bytes.Equal(ref, want) {
					return fmt.Errorf("%s: fresh parse differs from the reference document: %s", where, diffCanon(ref, want))
				}
			}
		}
		gotC, err := canonOf(got)
		if err != nil {
			return fmt.Errorf("%s: result obtained with reuse is not traversable: %v", where, err)
		}
		if !bytes.Equal(want, gotC) {
			return fmt.Errorf("%s: result obtained with reuse differs from a fresh parse: %s", where, diffCanon(want, gotC))
		}
		if _, err := tapeCheck(got, true); err != nil {
			return fmt.Errorf("%s: tape format: %v", where, err)
		}
		it := got.Iter()
		if mj, err := it.MarshalJSON(); err != nil {
			return fmt.Errorf("%s: MarshalJSON: %v", where, err)
		} else if m2, err := parseModelRoots(mj, nd); err != nil {
			return fmt.Errorf("%s: marshalled text is not valid: %v: %q", where, err, clip(mj))
		} else if m1, err := parseModelRoots(d, nd); err == nil {
			for k := range m1 {
				if k >= len(m2) {
					return fmt.Errorf("%s: marshalled text has %d roots, the document %d", where, len(m2), len(m1))
				}
				if err := eqNumeric(m1[k], m2[k], "root"); err != nil {
					return fmt.Errorf("%s: marshalled text denotes another document: %v", where, err)
				}
			}
		}
		pj = got
		prevCanon = nil
		if copyMode {
			prevCanon = want
		}
	}
	return nil
}

var c15SharedBufRun = register("C15", "shared-buffer", c15SharedBufCheck)

func TestC15_SharedBuffer(t *testing.T) {
	runRapid(t, "C15_SharedBuffer", nCases(12_000, 200_000), func(t *rapid.T) {
		var c c15SharedBuf
		n := rapid.IntRange(2, 6).Draw(t, "ndocs")
		siblings, failures := 0, 0
		var prev []byte
		prevND := false
		for i := 0; i < n; i++ {
			var d []byte
			nd := false
			k := rapid.IntRange(0, 9).Draw(t, "dockind")
			switch {
			case prev != nil && k < 5:
				// same length, same layout, other digits and letters
				d = sameLengthSibling(prev, rapid.Uint64().Draw(t, "sibseed"))
				nd = prevND
				siblings++
			case k < 7:
				text, _ := render(genDoc(t, pickProfile(t)), genLayout(t, false))
				d = text
			case k < 8:
				lines, crlf := genStreamLines(t, 4)
				d = buildStream(lines, crlf, false)
				d = bytes.TrimSpace(d)
				nd = true
			default:
				var class string
				d, class = genReuseInput(t)
				if !strings.HasPrefix(class, "valid") {
					failures++
				}
			}
			if len(d) == 0 {
				d = []byte(`{"empty":"replacement"}`)
			}
			c.Docs = append(c.Docs, d)
			c.ND = append(c.ND, nd)
			c.Mode = append(c.Mode, rapid.IntRange(0, 2).Draw(t, "mode"))
			c.ByVal = append(c.ByVal, rapid.IntRange(0, 3).Draw(t, "byval") == 0)
			c.Shift = append(c.Shift, []int{0, 0, 1, 31, 32, 63}[rapid.IntRange(0, 5).Draw(t, "shift")])
			prev, prevND = d, nd
		}
		// siblings are only interesting at the same place in the buffer
		if rapid.Bool().Draw(t, "sameplace") {
			for i := range c.Shift {
				c.Shift[i] = c.Shift[0]
			}
		}
		c15SharedBufRun(t, c)
		b, _ := json.Marshal(c)
		col("C15").Eval(siblings > 0 || failures > 0, evidHash(b), "kind:shared-buffer", fmt.Sprintf("siblings:%d", bucket(siblings)), boolClass("has-failing-doc", failures > 0))
		col("C15").Sample(func() interface{} {
			return map[string]interface{}{"kind": "shared-buffer", "docs": len(c.Docs), "first": clip(c.Docs[0]), "siblings": siblings, "modes": c.Mode}
		})
	})
	col("C15").Completed("TestC15_SharedBuffer")
}
