package props

import (
	"bytes"
	"encoding/json"
	"fmt"
	"strconv"
	"strings"
	"testing"

	simdjson "github.com/minio/simdjson-go"
	"pgregory.net/rapid"

	rj "verifharness/internal/refjson"
)

// C01: Parse accepts exactly the JSON grammar (object or array at the root).

type c01Case struct {
	In   []byte `json:"in"`
	Note string `json:"note,omitempty"`
}

// oracleSelfCheck cross-checks the reference verdict with encoding/json where both are defined.
func oracleSelfCheck(in []byte, v rj.Verdict) error {
	if nestingDepthOfText(in) > 9000 {
		return nil // encoding/json refuses documents nested deeper than 10000 levels: no second opinion there
	}
	switch v {
	case rj.MustAccept:
		if !json.Valid(in) {
			return bugf("refjson says MUST-ACCEPT but encoding/json rejects %q", clip(in))
		}
	case rj.Either:
		if !json.Valid(bytes.TrimSpace(in)) {
			return bugf("refjson says EITHER but encoding/json rejects even the trimmed input %q", clip(in))
		}
	case rj.MustReject:
		t := bytes.TrimSpace(in)
		if json.Valid(t) {
			// must be explained by: scalar root, or a number that is not finite
			if len(t) > 0 && (t[0] == '{' || t[0] == '[') {
				dec := json.NewDecoder(bytes.NewReader(t))
				dec.UseNumber()
				nonFinite := false
				for {
					tk, err := dec.Token()
					if err != nil {
						break
					}
					if n, ok := tk.(json.Number); ok {
						if _, err := strconv.ParseFloat(string(n), 64); err != nil {
							nonFinite = true
						}
					}
				}
				if !nonFinite {
					return bugf("refjson says MUST-REJECT but encoding/json accepts %q", clip(in))
				}
			}
		}
	}
	return nil
}

func clip(b []byte) string {
	if len(b) > 200 {
		return string(b[:100]) + "..." + string(b[len(b)-100:])
	}
	return string(b)
}

type parseCfg struct {
	avx512 bool
	copy   bool
	// sib: the input is placed in a buffer that held, and into a ParsedJson that has just parsed, a document of the same
	// length and layout with other digits and letters (a caller refilling one buffer and recycling one result)
	sib bool
	// prior: the call is handed a ParsedJson that has just served a successful parse of a small fixed document
	prior bool
}

// withSibling returns the four configurations plus one of them, chosen by the input, in "sib" mode.
func parseCfgsSib(in []byte) []parseCfg {
	cfgs := parseCfgs()
	c := cfgs[int(evidHash(in)%uint64(len(cfgs)))]
	c.sib = true
	d := cfgs[int((evidHash(in)>>8)%uint64(len(cfgs)))]
	d.prior = true
	return append(cfgs, c, d)
}

func parseCfgs() []parseCfg {
	var out []parseCfg
	for _, k := range kernels() {
		out = append(out, parseCfg{avx512: k, copy: true}, parseCfg{avx512: k, copy: false})
	}
	return out
}

func (c parseCfg) String() string {
	s := kernelName(c.avx512)
	if c.sib {
		s = "same buffer and result object as a same-length document before/" + s
	}
	if c.prior {
		s = "result object of a successful parse reused/" + s
	}
	if c.copy {
		return s + "/copy"
	}
	return s + "/nocopy"
}

func parseWith(cfg parseCfg, in []byte, nd bool) (pj *simdjson.ParsedJson, err error) {
	if cfg.prior {
		withKernel(cfg.avx512, func() {
			var prev *simdjson.ParsedJson
			var perr error
			if nd {
				prev, perr = simdjson.ParseND([]byte("{\"a\":[1,2,{\"b\":null}]}\n[\"c\\n\",2.5]"), nil, simdjson.WithCopyStrings(cfg.copy))
				if perr == nil {
					pj, err = simdjson.ParseND(in, prev, simdjson.WithCopyStrings(cfg.copy))
				}
			} else {
				prev, perr = simdjson.Parse([]byte(`{"a":[1,2,{"b":null}],"c":"d\n"}`), nil, simdjson.WithCopyStrings(cfg.copy))
				if perr == nil {
					pj, err = simdjson.Parse(in, prev, simdjson.WithCopyStrings(cfg.copy))
				}
			}
			if perr != nil {
				err = bugf("fixed prior document rejected: %v", perr)
			}
		})
		return
	}
	if cfg.sib {
		withKernel(cfg.avx512, func() {
			buf := sameLengthSibling(in, evidHash(in))
			var prev *simdjson.ParsedJson
			if nd {
				prev, _ = simdjson.ParseND(buf, nil, simdjson.WithCopyStrings(cfg.copy))
			} else {
				prev, _ = simdjson.Parse(buf, nil, simdjson.WithCopyStrings(cfg.copy))
			}
			copy(buf, in) // the caller refills its buffer and hands the previous result back
			if nd {
				pj, err = simdjson.ParseND(buf, prev, simdjson.WithCopyStrings(cfg.copy))
			} else {
				pj, err = simdjson.Parse(buf, prev, simdjson.WithCopyStrings(cfg.copy))
			}
		})
		return
	}
	withKernel(cfg.avx512, func() {
		if nd {
			pj, err = simdjson.ParseND(in, nil, simdjson.WithCopyStrings(cfg.copy))
		} else {
			pj, err = simdjson.Parse(in, nil, simdjson.WithCopyStrings(cfg.copy))
		}
	})
	return
}

func c01Check(c c01Case) error {
	v, _ := rj.Classify(c.In)
	if err := oracleSelfCheck(c.In, v); err != nil {
		return err
	}
	for _, cfg := range parseCfgsSib(c.In) {
		in := append([]byte(nil), c.In...)
		pj, err := parseWith(cfg, in, false)
		if err != nil && pj != nil {
			return fmt.Errorf("[%s] Parse returned both an error (%v) and a result", cfg, err)
		}
		if err == nil && pj == nil {
			return fmt.Errorf("[%s] Parse returned neither error nor result", cfg)
		}
		if !bytes.Equal(in, c.In) {
			return fmt.Errorf("[%s] Parse modified its input", cfg)
		}
		switch {
		case v == rj.MustAccept && err != nil:
			return fmt.Errorf("[%s] valid JSON rejected (%v): %q", cfg, err, clip(c.In))
		case v == rj.MustReject && err == nil:
			return fmt.Errorf("[%s] invalid JSON accepted: %q", cfg, clip(c.In))
		}
	}
	// The verdict is a function of the input alone: it is the same when the call is handed an object that has just
	// served a ParseND call (line feeds are record separators there, and only there) or a successful Parse (whatever
	// verdict or state that call left behind). Histories proper belong to C15.
	if len(c.In) <= 1<<16 {
		h := evidHash(c.In)
		for variant := 0; variant < 2; variant++ {
			if len(c.In) <= 8192 && int(h&1) != variant {
				continue // small inputs: one of the two variants, chosen by the input itself; large ones: both
			}
			var prev *simdjson.ParsedJson
			var perr error
			what := "ParseND"
			if variant == 0 {
				prev, perr = simdjson.ParseND([]byte("[1]\n{\"a\":2}\n[3]"), nil)
			} else {
				what = "a successful Parse"
				prev, perr = simdjson.Parse([]byte(`{"a":[1,2,{"b":null}],"c":"d\n"}`), nil)
			}
			if perr != nil {
				return fmt.Errorf("%s of a valid document failed: %v", what, perr)
			}
			in := append([]byte(nil), c.In...)
			pj, err := simdjson.Parse(in, prev)
			switch {
			case err != nil && pj != nil:
				return fmt.Errorf("[reused after %s] Parse returned both an error (%v) and a result", what, err)
			case v == rj.MustAccept && err != nil:
				return fmt.Errorf("[reused after %s] valid JSON rejected (%v): %q", what, err, clip(c.In))
			case v == rj.MustReject && err == nil:
				return fmt.Errorf("[reused after %s] invalid JSON accepted: %q", what, clip(c.In))
			}
		}
	}
	return nil
}

var c01Run = register("C01", "parse", c01Check)

// c01Eval runs the check and records statistics.
func c01Eval(tb fataler, in []byte, classes ...string) {
	c01Run(tb, c01Case{In: in})
	v, _ := rj.Classify(in)
	cl := col("C01")
	cls := append([]string{"verdict:" + v.String()}, classes...)
	cls = append(cls, boundaryClasses(in)...)
	cl.Eval(v != rj.Either, evidHash(in), cls...)
	cl.Sample(func() interface{} {
		return map[string]interface{}{"input": clip(in), "len": len(in), "verdict": v.String(), "classes": classes}
	})
}

func boundaryClasses(in []byte) []string {
	var out []string
	n := len(in)
	if n > 64 {
		out = append(out, "size:>64B")
	}
	if n >= 8190 && n <= 8194 {
		out = append(out, "size:8KiB+-2")
	}
	if n > 8192 {
		out = append(out, "size:>8KiB(async)")
	}
	return out
}

func pickProfile(t *rapid.T) docProfile {
	ps := []docProfile{profTiny, profTiny, profMedium, profKeys, profStr, profNum}
	if rapid.IntRange(0, 15).Draw(t, "deepprofile") == 0 {
		return profDeep // one root member is a spine of 20..270 nested containers: depth boundaries (128) for every consumer
	}
	return ps[rapid.IntRange(0, len(ps)-1).Draw(t, "profile")]
}

func TestC01_Valid(t *testing.T) {
	runRapid(t, "C01_Valid", nCases(60_000, 1_500_000), func(t *rapid.T) {
		p := pickProfile(t)
		d := genDoc(t, p)
		text, _ := render(d, genLayout(t, false))
		if v, _ := rj.Classify(text); v != rj.MustAccept {
			t.Fatalf("HARNESS-BUG: generated document is not MUST-ACCEPT (%v): %q", v, clip(text))
		}
		c01Eval(t, text, "gen:valid", "profile:"+p.Name)
	})
	col("C01").Completed("TestC01_Valid")
}

func TestC01_Mutated(t *testing.T) {
	runRapid(t, "C01_Mutated", nCases(150_000, 4_000_000), func(t *rapid.T) {
		p := pickProfile(t)
		d := genDoc(t, p)
		text, toks := render(d, genLayout(t, false))
		nm := rapid.IntRange(1, 3).Draw(t, "nmut")
		kinds := []string{"gen:mutated"}
		for i := 0; i < nm; i++ {
			var k string
			text, k = mutate(t, text, toks)
			toks = retokenize(toks, len(text))
			kinds = append(kinds, "mut:"+k)
		}
		c01Eval(t, text, kinds...)
	})
	col("C01").Completed("TestC01_Mutated")
}

// retokenize keeps only tokens that still fit the text (token spans are approximate after a mutation).
func retokenize(toks []tok, n int) []tok {
	out := toks[:0:0]
	for _, x := range toks {
		if x.End <= n && x.End-x.Start >= 1 {
			out = append(out, x)
		}
	}
	if len(out) == 0 && n > 0 {
		out = append(out, tok{0, 1, 'a'})
	}
	return out
}

const exhaustAlphabet = "[]{},:\"\\01-.et\x00 au"

func TestC01_Exhaustive(t *testing.T) {
	maxLen := 4
	if thorough() {
		maxLen = 5
	}
	alpha := []byte(exhaustAlphabet)
	idx := 0
	buf := make([]byte, 0, 8)
	var rec func(l int)
	rec = func(l int) {
		if l > 0 {
			idx++
			if idx%envNShards == envShard {
				c01Eval(t, append([]byte(nil), buf...), "gen:exhaustive-raw")
				w := append(append([]byte{'['}, buf...), ']')
				c01Eval(t, w, "gen:exhaustive-wrapped")
			}
		}
		if l == maxLen {
			return
		}
		for _, a := range alpha {
			buf = append(buf, a)
			rec(l + 1)
			buf = buf[:len(buf)-1]
		}
	}
	rec(0)
	col("C01").Exhaustive(fmt.Sprintf("all strings of length 1..%d over the %d-symbol alphabet %q, raw and wrapped in [ ]", maxLen, len(alpha), exhaustAlphabet))
	col("C01").Completed("TestC01_Exhaustive")
}

// atoms: token-level neighbours of valid tokens, valid and invalid; the oracle decides.
var c01Atoms = []string{
	"0", "-0", "1", "-1", "12", "0.5", "-0.5", "1e5", "1E5", "1e+5", "1e-5", "1.5e3", "0e0", "0.0", "-0.0",
	"01", "-01", "00", "-00", "01.5", "-01.5", "-00.5", "00.5", "0123", "-0123", "001e1", "-000000000000000000001", "000000000000000000001",
	"1.", "1.e3", ".5", "-.5", "-", "+1", "+", "1e", "1e+", "1e-", "1E+", "e5", "1e5.5", "1.5.5", "1..5", "1ee5", "--1", "-+1", "1-", "1+", "1-1", "1+1",
	"1e99999999999999999999", "1e9223372036854775807", "0.01e-9223372036854775808", "0e99999999999999999999",
	"0x10", "0X1", "1_000", "Infinity", "-Infinity", "NaN", "-NaN", "inf", "nan", "1e400", "-1e400", "1e309", "1.8e308", "1.7976931348623159e308", "1e-400",
	"1f", "1d", "1L", "0b1", "0o7", "1,", ",1", "1 2", "1\x002", "1\x00", "\x001", "123456789012345678901234567890", "9223372036854775808", "18446744073709551616", "-9223372036854775809",
	"true", "false", "null", "True", "TRUE", "False", "Null", "NULL", "tru", "fals", "nul", "truee", "falsee", "nulll", "true1", "false0", "nullx", "t", "f", "n", "tr", "fa", "nu",
	"true\x00", "false\x00", "null\x00", "true\x00x", "null\x00x", "true\x01", "true\v", "true\f", "true\x7f", "true\x80", "true\"", "true'", "true/", "true\\", "truefalse", "true false", "true,false",
	"trux", "falsx", "nulx", "txue", "fxlse", "nxll", "xrue", "nil", "none", "undefined", "yes",
	`""`, `"a"`, `"\n"`, `"\u0041"`, `"\ud83d\ude00"`, `"\""`, `"\\"`, `"\/"`, `"é"`, `"` + "\x7f" + `"`,
	`"`, `"a`, `a"`, `"\"`, `"\`, `"\x"`, `"\u"`, `"\u1"`, `"\u12"`, `"\u123"`, `"\u12,4"`, `"\u/234"`, `"\u123g"`, `"\ug123"`, `"\u 123"`, `"\u-123"`, `"\u+123"`, `"\U0041"`, `"\a"`, `"\v"`, `"\0"`, `"\'"`, `"\ "`, `"\u00:0"`, `"\u000 "`, `"\u00"0"`, `"\u.000"`,
	"\"a\x00b\"", "\"a\x01b\"", "\"a\x1fb\"", "\"a\nb\"", "\"a\tb\"", "\"a\rb\"", "\"\x00\"", "\"\x1f\"", `'a'`, `"a""b"`, `"a" "b"`, `"a"x`, `x"a"`, `"a"1`, `1"a"`, `"a":1`, `"a":`, `:"a"`, `"a",`,
	`"\ud800"`, `"\udc00"`, `"\ud800\u0041"`, `"\ud800\ud800"`, `"\udc00\ud800"`, `"\ud800x"`, "\"\xff\"", "\"\xc3\"", "\"\xc3\x28\"", "\"\xe2\x82\"", "\"\xf0\x9f\x98\"", "\"\xed\xa0\x80\"",
	"[]", "{}", "[[]]", "[{}]", "{\"a\":[]}", "{\"a\":{}}", "[1,2]", "[1,[2,[3]]]", "{\"a\":1,\"a\":2}",
	"[", "]", "{", "}", "[[", "]]", "[]]", "[[]", "{{}}", "{[]}", "[}", "{]", "[1}", "{\"a\":1]", "[,]", "[1,]", "[,1]", "[1,,2]", "{,}", "{\"a\":1,}", "{,\"a\":1}", "{\"a\"}", "{\"a\":}", "{:1}", "{\"a\" 1}", "{\"a\"::1}", "{\"a\":1 \"b\":2}", "{\"a\":1:2}", "{1:2}", "{true:1}", "{null:1}", "{[]:1}", "{\"a\",1}", "[1:2]", "[\"a\":1]", "[1 2]", "[1;2]",
	",", ":", "", " ", "\x00", "\x00\x00\x00\x00", "\v", "\f", "\xc2\xa0", "\xef\xbb\xbf", "/*c*/1", "//c\n1", "#", "1 //c", "1/**/",
	"[]x", "[] x", "[]1", "[] []", "[],[]", "[]{}", "{}[]", "[]\x00", "x[]", "1[]",
}

// c01Contexts wraps an atom with its start at a chosen offset; returns inputs.
func c01Place(atom string, off int, form int) []byte {
	var b bytes.Buffer
	switch form {
	case 0: // array element, padded with white space
		b.WriteByte('[')
		for b.Len() < off {
			b.WriteByte(' ')
		}
		b.WriteString(atom)
		b.WriteByte(']')
	case 1: // object value
		b.WriteString(`{"k":`)
		for b.Len() < off {
			b.WriteByte(' ')
		}
		b.WriteString(atom)
		b.WriteByte('}')
	case 2: // after a string filler (no white space), second array element
		b.WriteString(`["`)
		for b.Len() < off-2 {
			b.WriteByte('x')
		}
		b.WriteString(`",`)
		b.WriteString(atom)
		b.WriteByte(']')
	case 3: // first element followed by more content so that the atom is not in the last block
		b.WriteByte('[')
		for b.Len() < off {
			b.WriteByte(' ')
		}
		b.WriteString(atom)
		b.WriteString(`,"` + strings.Repeat("y", 100) + `"]`)
	case 4: // as object key position: {atom:1}
		b.WriteByte('{')
		for b.Len() < off {
			b.WriteByte(' ')
		}
		b.WriteString(atom)
		b.WriteString(`:1}`)
	}
	return b.Bytes()
}

func TestC01_Positional(t *testing.T) {
	idx := 0
	maxOff := 131
	step := 1
	for ai, atom := range c01Atoms {
		for form := 0; form < 5; form++ {
			for off := 1; off < maxOff; off += step {
				if form == 2 && off < 5 {
					continue
				}
				if form == 1 && off < 5 {
					continue
				}
				// quick tier: every offset for forms 0/1, every 3rd for the others
				if !thorough() && form >= 2 && (off+ai)%3 != 0 {
					continue
				}
				idx++
				if idx%envNShards != envShard {
					continue
				}
				c01Eval(t, c01Place(atom, off, form), "gen:positional", fmt.Sprintf("form:%d", form))
			}
		}
	}
	col("C01").Exhaustive(fmt.Sprintf("%d atoms x start offsets 1..130 x {array element, object value} (all offsets), other forms %s", len(c01Atoms), map[bool]string{true: "all offsets", false: "every 3rd offset"}[thorough()]))

	// atoms around the 8 KiB sync/async threshold, and as the ~1408-th structural
	for ai, atom := range c01Atoms {
		if (ai%envNShards != envShard) && !thorough() {
			continue
		}
		if thorough() && ai%envNShards != envShard {
			continue
		}
		for total := 8189; total <= 8196; total++ {
			// ["xxxx...",atom] with the total length fixed
			fill := total - len(atom) - 6
			if fill < 0 {
				continue
			}
			in := []byte(`["` + strings.Repeat("x", fill) + `",` + atom + `]`)
			c01Eval(t, in, "gen:8KiB-boundary")
			// atom first, filler after
			in = []byte(`[` + atom + `,"` + strings.Repeat("x", fill) + `"]`)
			c01Eval(t, in, "gen:8KiB-boundary")
		}
		for k := 1404; k <= 1411; k += 1 {
			// [1,1,1,...,atom]: the atom is structural number 2k+2 or so; vary so that it lands on the 1408 boundary
			n := k / 2
			in := []byte("[" + strings.Repeat("1,", n) + atom + "]")
			c01Eval(t, in, "gen:index-buffer-boundary")
			in = []byte("[" + strings.Repeat("[],", k/3) + atom + "]")
			c01Eval(t, in, "gen:index-buffer-boundary")
		}
		// last partial block: atom ends k bytes before the end of input, input length > 64
		for tail := 0; tail < 70; tail += 3 {
			in := []byte(`["` + strings.Repeat("x", 70) + `",` + atom + strings.Repeat(" ", tail) + `]`)
			c01Eval(t, in, "gen:tail-block")
		}
	}
	col("C01").Completed("TestC01_Positional")
}

// TestC01_BigMutated: invalid tokens inside documents that span several index buffers (> 1408 structurals) and the
// 8 KiB threshold: an error found in an early buffer must survive until the verdict, wherever it is.
func TestC01_BigMutated(t *testing.T) {
	runRapid(t, "C01_BigMutated", nCases(6_000, 150_000), func(t *rapid.T) {
		text, shape := genShape(t)
		if len(text) > 400_000 {
			text = append(append([]byte(nil), text[:400_000]...), ']')
		}
		in, kind := mutateBytes(t, text)
		c01Eval(t, in, "gen:big-mutated", "shape:"+shape, "bytemut:"+kind)
	})
	col("C01").Completed("TestC01_BigMutated")
}

// TestC01_AtomInBigDoc: every atom as the first, a middle and the last element of an array that needs 1..18 index buffers.
func TestC01_AtomInBigDoc(t *testing.T) {
	idx := 0
	fills := []int{800, 1500, 3000, 12000}
	if thorough() {
		fills = []int{700, 800, 1500, 3000, 6000, 12000, 25000}
	}
	for ai, atom := range c01Atoms {
		for fi, n := range fills {
			idx++
			if idx%envNShards != envShard {
				continue
			}
			if !thorough() && (ai+fi)%2 != 0 {
				continue
			}
			filler := strings.Repeat("1,", n)
			c01Eval(t, []byte("["+atom+","+filler+"1]"), "gen:atom-in-big-doc", "pos:first")
			c01Eval(t, []byte("["+filler+atom+"]"), "gen:atom-in-big-doc", "pos:last")
			c01Eval(t, []byte("["+strings.Repeat("1,", n/2)+atom+","+strings.Repeat("[],", n/3)+"1]"), "gen:atom-in-big-doc", "pos:middle")
			c01Eval(t, []byte(`{"k":`+atom+`,"f":[`+filler+`1]}`), "gen:atom-in-big-doc", "pos:first-object")
		}
	}
	col("C01").Completed("TestC01_AtomInBigDoc")
}

// TestC01_Rollover: valid and invalid strings (escaped quotes, backslash runs, stray quotes) placed where stage 1 hands
// over from one index buffer to the next: a verdict must not depend on state lost at that hand-over, in either direction.
func TestC01_Rollover(t *testing.T) {
	idx := 0
	srcs := []string{`"ab\"cd"`, `"ab\\"`, `"ab\" , "x"`, `"ab\\" , "`, `"\\\"q"`, `"plain"`, `"a\nb"`, `"\\\\\\"`, `"x\"`, `"unterminated`}
	for _, tok := range []string{"0,", "[],"} {
		per := structuralsOf(tok)
		base := 1408 / per
		for dk := -12; dk <= 12; dk++ {
			for pad := 0; pad < 64; pad++ {
				if !thorough() && (pad+dk)%3 != 0 {
					continue
				}
				for si, s := range srcs {
					idx++
					if idx%envNShards != envShard {
						continue
					}
					in := "[" + strings.Repeat(tok, base+dk) + strings.Repeat(" ", pad) + s + `,"` + strings.Repeat("t", 70+si) + `",1,2,3]`
					c01Eval(t, []byte(in), "gen:index-buffer-rollover")
				}
			}
		}
	}
	col("C01").Completed("TestC01_Rollover")
}

// TestC01_EdgeWhiteSpace: documents whose structural characters fill index buffers exactly (k x 1408 +- 3), whose length
// sits around multiples of 64, followed and preceded by runs of 0..200 bytes of JSON white space: leading and trailing
// white space is ignored wherever the last token falls relative to blocks and index buffers.
func TestC01_EdgeWhiteSpace(t *testing.T) {
	idx := 0
	ws := []string{" ", "\n", "\t", "\r\n", " \t"}
	for _, tok := range []string{"0,", "[],", `"s",`} {
		per := structuralsOf(tok)
		for _, k := range []int{1, 2} {
			for d := -3; d <= 3; d++ {
				n := (1408*k+d)/per - 1
				for _, trail := range []int{0, 1, 63, 64, 65, 70, 127, 128, 129, 200} {
					for _, lead := range []int{0, 1, 65} {
						for pad := 0; pad < 64; pad += 7 {
							idx++
							if idx%envNShards != envShard {
								continue
							}
							w := ws[idx%len(ws)]
							body := "[" + strings.Repeat(tok, n) + strings.Repeat(" ", pad) + "1]"
							in := strings.Repeat(w, lead)[:lead] + body + strings.Repeat(w, trail+1)[:trail]
							c01Eval(t, []byte(in), "gen:edge-white-space")
							if idx%5 == 0 {
								// and an invalid neighbour: something other than white space after the run
								c01Eval(t, []byte(in+"x"), "gen:edge-white-space")
							}
						}
					}
				}
			}
		}
	}
	col("C01").Completed("TestC01_EdgeWhiteSpace")
}
