package props

import (
	"encoding/json"
	"flag"
	"fmt"
	"hash/fnv"
	"os"
	"path/filepath"
	"runtime"
	"runtime/debug"
	"strconv"
	"strings"
	"sync"
	"testing"
	"time"

	"github.com/klauspost/cpuid/v2"
	"pgregory.net/rapid"

	"verifharness/internal/evid"
)

// ---------------------------------------------------------------------------------------------
// Environment supplied by the driver (bin/check). Running `go test` by hand gives a tiny quick run.

var (
	envTier    = getenv("VERIF_TIER", "quick")
	envSeed    = getenvInt("VERIF_SEED", 1)
	envShard   = int(getenvInt("VERIF_SHARD", 0))
	envNShards = int(getenvInt("VERIF_NSHARDS", 1))
	envOut     = getenv("VERIF_OUT", "")       // base path for stats / fail / crumb files
	envScale   = getenvFloat("VERIF_SCALE", 1) // multiplies case counts (used by hand while developing)
	hasAVX512  = cpuid.CPU.Has(cpuid.AVX512F)
)

func getenv(k, d string) string {
	if v := os.Getenv(k); v != "" {
		return v
	}
	return d
}
func getenvInt(k string, d int64) int64 {
	if v := os.Getenv(k); v != "" {
		if n, err := strconv.ParseInt(v, 10, 64); err == nil {
			return n
		}
	}
	return d
}
func getenvFloat(k string, d float64) float64 {
	if v := os.Getenv(k); v != "" {
		if n, err := strconv.ParseFloat(v, 64); err == nil {
			return n
		}
	}
	return d
}

func thorough() bool { return envTier == "thorough" }

// n picks the per-shard case count for the tier.
func nCases(quick, thoroughN int) int {
	v := quick
	if thorough() {
		v = thoroughN
	}
	v = int(float64(v) * envScale)
	// counts are given as totals over all shards
	v = v / envNShards
	if v < 1 {
		v = 1
	}
	return v
}

// ---------------------------------------------------------------------------------------------
// Collectors, one per property, flushed in TestMain.

var (
	colMu sync.Mutex
	cols  = map[string]*evid.Collector{}
)

func col(prop string) *evid.Collector {
	colMu.Lock()
	defer colMu.Unlock()
	c := cols[prop]
	if c == nil {
		c = evid.NewCollector(prop, envShard)
		cols[prop] = c
	}
	return c
}

func flushAll() {
	if envOut == "" {
		return
	}
	colMu.Lock()
	defer colMu.Unlock()
	for p, c := range cols {
		_ = c.Flush(envOut + "." + p)
	}
}

func TestMain(m *testing.M) {
	flag.Parse()
	if canaryMode {
		if err := canary(); err != nil {
			fmt.Println("HARNESS-BUG: the canary fails before any case has run:", err)
			os.Exit(4)
		}
	}
	code := m.Run()
	flushAll()
	os.Exit(code)
}

// ---------------------------------------------------------------------------------------------
// Deterministic seeding

func subSeed(name string) uint64 {
	h := fnv.New64a()
	h.Write([]byte(name))
	s := uint64(envSeed)*1000003 + uint64(envShard)*7919 + h.Sum64()%1000000007
	s = s % (1 << 62)
	return s + 1
}

// prng: splitmix64, for atomic cases (a float bit pattern, a literal) that need volume and no shrinking.
type prng struct{ s uint64 }

func newPRNG(name string) *prng {
	// scramble the seed so that neighbouring shards do not walk the same splitmix sequence
	z := subSeed(name)
	z = (z ^ (z >> 33)) * 0xff51afd7ed558ccd
	z = (z ^ (z >> 33)) * 0xc4ceb9fe1a85ec53
	z ^= z >> 33
	return &prng{s: z}
}
func (p *prng) u64() uint64 {
	p.s += 0x9e3779b97f4a7c15
	z := p.s
	z = (z ^ (z >> 30)) * 0xbf58476d1ce4e5b9
	z = (z ^ (z >> 27)) * 0x94d049bb133111eb
	return z ^ (z >> 31)
}
func (p *prng) intn(n int) int {
	if n <= 0 {
		return 0
	}
	return int(p.u64() % uint64(n))
}
func (p *prng) bool() bool { return p.u64()&1 == 1 }

// runRapid runs a rapid property with a pinned seed and case count.
func runRapid(t *testing.T, name string, checks int, prop func(*rapid.T)) {
	t.Helper()
	must(flag.Set("rapid.checks", strconv.Itoa(checks)))
	must(flag.Set("rapid.seed", strconv.FormatUint(subSeed(name), 10)))
	must(flag.Set("rapid.nofailfile", "true"))
	must(flag.Set("rapid.shrinktime", "25s"))
	must(flag.Set("rapid.steps", "30"))
	// rapid replays testdata/rapid first; make sure nothing is there
	_ = os.RemoveAll(filepath.Join("testdata", "rapid"))
	rapid.Check(t, prop)
}

func must(err error) {
	if err != nil {
		panic(err)
	}
}

// ---------------------------------------------------------------------------------------------
// Case registry: every check is a pure function of a JSON-serialisable case.

type fataler interface {
	Fatalf(format string, args ...interface{})
	Helper()
}

type replayFile struct {
	Property string          `json:"property"`
	Kind     string          `json:"kind"`
	Msg      string          `json:"msg"`
	Case     json.RawMessage `json:"case"`
	// Canary: after the case has run, the process-state canary (canary_test.go) must still pass: the case is kept
	// because it leaves package-level state behind that breaks later calls on fresh objects.
	Canary bool `json:"canary,omitempty"`
}

// canaryMode: run the process-state canary after every case. Set by VERIF_CANARY=1 (the driver's "pollution hunt": a
// failure that does not reproduce from its own case is usually caused by an EARLIER case of the same process that left
// package-level state behind; the shard is run again with the canary, which pins the first case after which fresh
// objects misbehave) and while a replay file with "canary": true is replayed.
var canaryMode = os.Getenv("VERIF_CANARY") == "1"

const pollutionPrefix = "POLLUTION: "

var replayers = map[string]func(raw json.RawMessage) error{}

// harnessBug marks an error as a defect of the harness/oracle (exit 2), never a violation.
type harnessBug struct{ msg string }

func (h harnessBug) Error() string { return "HARNESS-BUG: " + h.msg }

func bugf(format string, a ...interface{}) error { return harnessBug{fmt.Sprintf(format, a...)} }

// register returns the checked runner for a case kind.
func register[C any](prop, kind string, check func(C) error) func(tb fataler, c C) {
	key := prop + "/" + kind
	safe := func(c C) (err error) {
		defer func() {
			if r := recover(); r != nil {
				err = fmt.Errorf("panic: %v\n%s", r, trimStack(debug.Stack()))
			}
		}()
		// every case runs under a generous watchdog: a call that never returns (deadlocked stages, a lost wake-up)
		// becomes a breadcrumb + exit 3, which the driver replays alone, instead of a wall-clock timeout of the run
		stop := caseWatchdog(prop, kind, c)
		defer stop()
		if err := check(c); err != nil || !canaryMode {
			return err
		}
		if cerr := canary(); cerr != nil {
			return fmt.Errorf(pollutionPrefix+"the case itself passed, but after it the same calls on fresh objects no longer behave as they did when the process started (package-level state was left behind): %v", cerr)
		}
		return nil
	}
	replayers[key] = func(raw json.RawMessage) error {
		var c C
		if err := json.Unmarshal(raw, &c); err != nil {
			return bugf("bad replay case: %v", err)
		}
		return safe(c)
	}
	return func(tb fataler, c C) {
		tb.Helper()
		if err := safe(c); err != nil {
			saveFailure(prop, kind, c, err)
			if canaryMode && envOut != "" {
				// pollution hunt: the first failing case is the answer; shrinking would run in an already polluted
				// process, where every case fails
				fmt.Fprintf(os.Stderr, "%s/%s: %v\n", prop, kind, err)
				flushAll()
				os.Exit(1)
			}
			tb.Fatalf("%s/%s: %v", prop, kind, err)
		}
	}
}

func trimStack(b []byte) string {
	s := string(b)
	if len(s) > 3000 {
		s = s[:3000]
	}
	return s
}

func failPath() string {
	if envOut == "" {
		return ""
	}
	return envOut + ".fail.json"
}

func saveFailure(prop, kind string, c interface{}, err error) {
	p := failPath()
	if p == "" {
		return
	}
	raw, _ := json.Marshal(c)
	b, _ := json.MarshalIndent(replayFile{Property: prop, Kind: kind, Msg: err.Error(), Case: raw, Canary: strings.HasPrefix(err.Error(), pollutionPrefix)}, "", " ")
	_ = os.WriteFile(p, b, 0o644)
}

// ---------------------------------------------------------------------------------------------
// Breadcrumb + watchdog for cases that can crash the process or never return.

var (
	crumbMu   sync.Mutex
	crumbFile *os.File
)

func crumb(prop, kind string, c interface{}) {
	if envOut == "" {
		return
	}
	raw, _ := json.Marshal(c)
	b, _ := json.Marshal(replayFile{Property: prop, Kind: kind, Msg: "process died or hung while running this case", Case: raw})
	crumbMu.Lock()
	defer crumbMu.Unlock()
	if crumbFile == nil {
		f, err := os.OpenFile(envOut+".crumb.json", os.O_CREATE|os.O_RDWR|os.O_TRUNC, 0o644)
		if err != nil {
			return
		}
		crumbFile = f
	}
	_ = crumbFile.Truncate(0)
	_, _ = crumbFile.WriteAt(b, 0)
}

func clearCrumb() {
	crumbMu.Lock()
	defer crumbMu.Unlock()
	if crumbFile != nil {
		_ = crumbFile.Truncate(0)
	}
}

// watchdog arms a timer; if the returned stop func is not called in time, the process dumps
// goroutines and exits with status 3 (the driver then re-runs the crumb alone).
func watchdog(d time.Duration, what string) (stop func()) {
	tm := time.AfterFunc(d, func() {
		buf := make([]byte, 1<<16)
		n := runtime.Stack(buf, true)
		fmt.Fprintf(os.Stderr, "WATCHDOG: %s did not finish within %v\n%s\n", what, d, buf[:n])
		if envOut != "" {
			_ = os.WriteFile(envOut+".hang", []byte(what), 0o644)
		}
		flushAll()
		os.Exit(3)
	})
	return func() { tm.Stop() }
}

// caseWatchdog: like watchdog, but writes the running case as the breadcrumb when it fires.
func caseWatchdog(prop, kind string, c interface{}) (stop func()) {
	d := 4 * hangLimit()
	if prop == "C20" {
		// dozens of goroutines under the race detector on a loaded machine: a case normally takes about a second;
		// the limit stays well inside the budget of the whole run, so that a call that never returns is a verdict
		// (watchdog, replay) and not a wall-clock time-out of the run
		d = 4 * time.Minute
		if thorough() {
			d = 10 * time.Minute
		}
	}
	tm := time.AfterFunc(d, func() {
		crumb(prop, kind, c)
		buf := make([]byte, 1<<16)
		n := runtime.Stack(buf, true)
		fmt.Fprintf(os.Stderr, "WATCHDOG: a %s/%s case did not finish within %v\n%s\n", prop, kind, d, buf[:n])
		if envOut != "" {
			_ = os.WriteFile(envOut+".hang", []byte(prop+"/"+kind), 0o644)
		}
		flushAll()
		os.Exit(3)
	})
	return func() { tm.Stop() }
}

func hangLimit() time.Duration {
	if v := getenvInt("VERIF_HANG_S", 0); v > 0 {
		return time.Duration(v) * time.Second
	}
	if thorough() {
		return 60 * time.Second
	}
	return 30 * time.Second
}

// ---------------------------------------------------------------------------------------------
// Replay entry points

// TestReplay runs the single case in $VERIF_REPLAY.
func TestReplay(t *testing.T) {
	p := os.Getenv("VERIF_REPLAY")
	if p == "" {
		t.Skip("VERIF_REPLAY not set")
	}
	if err := replayOne(p); err != nil {
		if hb, ok := err.(harnessBug); ok {
			fmt.Printf("REPLAY-HARNESS-BUG %s: %v\n", p, hb)
			os.Exit(4)
		}
		fmt.Printf("REPLAY-FAIL %s: %v\n", p, err)
		t.Fatalf("replay %s failed: %v", p, err)
	}
	fmt.Printf("REPLAY-OK %s\n", p)
}

// TestReplayDir runs every replays/<PROP>-*.json; prints one line per file.
func TestReplayDir(t *testing.T) {
	dir := os.Getenv("VERIF_REPLAY_DIR")
	prop := os.Getenv("VERIF_REPLAY_PROP")
	if dir == "" {
		t.Skip("VERIF_REPLAY_DIR not set")
	}
	files, _ := filepath.Glob(filepath.Join(dir, prop+"-*.json"))
	skip := map[string]bool{}
	for _, f := range strings.Split(os.Getenv("VERIF_REPLAY_SKIP"), ",") {
		skip[f] = true
	}
	bad := 0
	for _, f := range files {
		if skip[f] {
			continue
		}
		crumbPath(f)
		if err := replayOne(f); err != nil {
			bad++
			fmt.Printf("REPLAY-FAIL %s: %s\n", f, firstLine(err.Error()))
		} else {
			fmt.Printf("REPLAY-OK %s\n", f)
		}
	}
	fmt.Printf("REPLAY-DIR-DONE %d files %d failing\n", len(files), bad)
	if bad > 0 {
		t.Fatalf("%d replay files fail", bad)
	}
}

// crumbPath records which replay file is being executed, so that a crash can be attributed.
func crumbPath(p string) {
	if envOut != "" {
		_ = os.WriteFile(envOut+".replaying", []byte(p), 0o644)
	}
}

func firstLine(s string) string {
	if i := strings.IndexByte(s, '\n'); i >= 0 {
		s = s[:i]
	}
	if len(s) > 400 {
		s = s[:400]
	}
	return s
}

func replayOne(path string) error {
	b, err := os.ReadFile(path)
	if err != nil {
		return bugf("cannot read replay: %v", err)
	}
	var rf replayFile
	if err := json.Unmarshal(b, &rf); err != nil {
		return bugf("cannot decode replay: %v", err)
	}
	fn := replayers[rf.Property+"/"+rf.Kind]
	if fn == nil {
		return bugf("no replayer for %s/%s", rf.Property, rf.Kind)
	}
	stop := watchdog(120*time.Second, "replay "+path)
	defer stop()
	if rf.Canary {
		if err := canary(); err != nil {
			return bugf("the canary fails in a fresh process: %v", err)
		}
		canaryMode = true
		defer func() { canaryMode = false }()
	}
	return fn(rf.Case)
}

// ---------------------------------------------------------------------------------------------
// Kernel selection

var kernelMu sync.Mutex

// withKernel runs f with the AVX-512 kernels enabled or disabled (process-global switch).
func withKernel(avx512 bool, f func()) {
	kernelMu.Lock()
	defer kernelMu.Unlock()
	if !hasAVX512 {
		f()
		return
	}
	if avx512 {
		cpuid.CPU.Enable(cpuid.AVX512F)
	} else {
		cpuid.CPU.Disable(cpuid.AVX512F)
	}
	defer cpuid.CPU.Enable(cpuid.AVX512F)
	f()
}

func kernels() []bool {
	if hasAVX512 {
		return []bool{true, false}
	}
	return []bool{false}
}

func kernelName(avx512 bool) string {
	if avx512 && hasAVX512 {
		return "avx512"
	}
	return "avx2"
}

func evidHash(parts ...[]byte) uint64 { return evid.Hash(parts...) }
