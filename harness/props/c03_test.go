package props

import (
	"bytes"
	"fmt"
	"math"
	"math/big"
	"strconv"
	"strings"
	"testing"

	simdjson "github.com/minio/simdjson-go"
	"pgregory.net/rapid"

	rj "verifharness/internal/refjson"
)

// C03: numbers get the documented type and the exact value.

type c03Case struct {
	Lit string `json:"lit"`
	Ctx int    `json:"ctx"`
	// Pre: number of small members placed before the literal (array contexts: "0," elements; object contexts:
	// "pN":0 members), so that the literal is written when the tape is about to grow, at any position
	Pre int `json:"pre,omitempty"`
}

// c03Input builds the document of a case.
func c03Input(c c03Case) []byte {
	ctx := c03Contexts[c.Ctx%len(c03Contexts)]
	if c.Pre <= 0 {
		return []byte(ctx.pre + c.Lit + ctx.post)
	}
	var b bytes.Buffer
	if strings.HasPrefix(ctx.pre, "{") {
		b.WriteByte('{')
		for i := 0; i < c.Pre; i++ {
			fmt.Fprintf(&b, `"p%d":%d,`, i, i%10)
		}
		b.WriteString(ctx.pre[1:])
	} else {
		// "[" , "[1," or "[["
		b.WriteByte('[')
		for i := 0; i < c.Pre; i++ {
			b.WriteByte(byte('0' + i%10))
			b.WriteByte(',')
		}
		b.WriteString(ctx.pre[1:])
	}
	b.WriteString(c.Lit)
	b.WriteString(ctx.post)
	return b.Bytes()
}

var c03Contexts = []struct{ pre, post string }{
	{"[", "]"}, {"[", ",0]"}, {"[", " ]"}, {"[", "\t]"}, {"[", "\r]"}, {"[", "\n]"},
	{`{"k":`, "}"}, {`{"k":`, `,"j":0}`}, {`{"k":`, " }"}, {`{"k":`, "\n}"}, {"[1,", "]"}, {`[[`, `]]`},
}

func c03Check(c c03Case) error {
	if !rj.ValidNumberLiteral(c.Lit) {
		return bugf("case literal %q is not in the number grammar", c.Lit)
	}
	in := c03Input(c)
	finite := rj.FiniteLiteral(c.Lit)
	var wt byte
	var wbits uint64
	var wflag bool
	if finite {
		var err error
		wt, wbits, wflag, err = rj.NumValue(c.Lit)
		if err != nil {
			return bugf("NumValue(%q): %v", c.Lit, err)
		}
		// oracle self-check against strconv (the float part only)
		if wt == 'f' {
			f, err := strconv.ParseFloat(c.Lit, 64)
			if err != nil || math.Float64bits(f) != wbits {
				return bugf("number oracle disagrees with strconv on %q: oracle %#x, strconv %#x (%v)", c.Lit, wbits, math.Float64bits(f), err)
			}
		}
	}
	for _, cfg := range parseCfgsSib(in) {
		pj, err := parseWith(cfg, append([]byte(nil), in...), false)
		if !finite {
			if err == nil {
				return fmt.Errorf("[%s] literal %s rounds to infinity but was accepted (%q)", cfg, c.Lit, in)
			}
			continue
		}
		if err != nil {
			return fmt.Errorf("[%s] valid finite number %s rejected: %v (%q)", cfg, c.Lit, err, in)
		}
		it := pj.Iter()
		// walk to the number: it is the only number-typed entry besides the fixed context numbers; find by position
		var typ simdjson.Type
		found := false
		depth := 0
		skip := c.Pre
		if c.Pre < 0 {
			skip = 0
		}
		if c.Ctx%len(c03Contexts) == 10 {
			skip++ // context "[1,LIT]": the leading 1
		}
		for {
			tag := it.AdvanceInto()
			if tag == simdjson.TagEnd {
				break
			}
			switch tag {
			case simdjson.TagArrayStart, simdjson.TagObjectStart:
				depth++
			}
			t := tag.Type()
			if t == simdjson.TypeInt || t == simdjson.TypeUint || t == simdjson.TypeFloat {
				if skip > 0 {
					skip--
					continue
				}
				typ = t
				found = true
				break
			}
		}
		if !found || typ == simdjson.TypeNone {
			return fmt.Errorf("[%s] no number found on the tape for %q", cfg, in)
		}
		var gt byte
		var gbits uint64
		var gflag bool
		switch typ {
		case simdjson.TypeInt:
			v, err := it.Int()
			if err != nil {
				return fmt.Errorf("[%s] Int(): %v", cfg, err)
			}
			gt, gbits = 'i', uint64(v)
		case simdjson.TypeUint:
			v, err := it.Uint()
			if err != nil {
				return fmt.Errorf("[%s] Uint(): %v", cfg, err)
			}
			gt, gbits = 'u', v
		case simdjson.TypeFloat:
			v, fl, err := it.FloatFlags()
			if err != nil {
				return fmt.Errorf("[%s] FloatFlags(): %v", cfg, err)
			}
			gt, gbits, gflag = 'f', math.Float64bits(v), fl.Contains(simdjson.FloatOverflowedInteger)
			if uint64(fl)&^uint64(simdjson.FloatOverflowedInteger) != 0 {
				return fmt.Errorf("[%s] literal %s: undocumented float flags %#x", cfg, c.Lit, uint64(fl))
			}
			// the flag set as a caller would build it for a comparison
			if want := simdjson.FloatOverflowedInteger.Flags(); gflag != (fl == want) || !want.Contains(simdjson.FloatOverflowedInteger) {
				return fmt.Errorf("[%s] literal %s: flags %#x compared with FloatOverflowedInteger.Flags() = %#x disagrees with Contains = %v", cfg, c.Lit, uint64(fl), uint64(want), gflag)
			}
		}
		if gt != wt || gbits != wbits || gflag != wflag {
			return fmt.Errorf("[%s] literal %s exposed as type %c bits %#x flag %v; documented exposure is type %c bits %#x flag %v (%s vs %s)",
				cfg, c.Lit, gt, gbits, gflag, wt, wbits, wflag, showNum(gt, gbits), showNum(wt, wbits))
		}
		if cfg.sib || cfg.prior {
			// the same exposure through the other routes to a value: typed traversal with NextElementBytes / Array
			// iteration (W1), Object.Parse + Elements (W6) and the raw tag walk (W2)
			model, err := modelOf(in)
			if err != nil {
				return err
			}
			roots := []*rj.Node{model}
			mc := func(o canonOpts) []byte { return modelCanonAll(roots, o) }
			if err := compareWalkers(pj, []walker{wW1, wW6, wW2}, mc); err != nil {
				return fmt.Errorf("[%s] literal %s in %q: %v", cfg, c.Lit, clip(in), err)
			}
		}
	}
	return nil
}

func showNum(t byte, bits uint64) string {
	switch t {
	case 'i':
		return strconv.FormatInt(int64(bits), 10)
	case 'u':
		return strconv.FormatUint(bits, 10)
	case 'f':
		return strconv.FormatFloat(math.Float64frombits(bits), 'g', -1, 64)
	}
	return "?"
}

var c03Run = register("C03", "number", c03Check)

func c03Trivial(lit string) bool {
	s := strings.TrimPrefix(lit, "-")
	if len(s) == 0 || len(s) > 4 || s[0] < '1' || s[0] > '9' {
		return false
	}
	for i := 0; i < len(s); i++ {
		if s[i] < '0' || s[i] > '9' {
			return false
		}
	}
	return true
}

func c03Eval(tb fataler, lit string, ctx int, class string) { c03EvalPre(tb, lit, ctx, 0, class) }

func c03EvalPre(tb fataler, lit string, ctx, pre int, class string) {
	if !rj.ValidNumberLiteral(lit) {
		col("C03").Skip("generated string not in the number grammar")
		return
	}
	c03Run(tb, c03Case{Lit: lit, Ctx: ctx, Pre: pre})
	cl := col("C03")
	cls := []string{"class:" + class, fmt.Sprintf("ctx:%d", ctx%len(c03Contexts))}
	if rj.FiniteLiteral(lit) {
		t, _, fl, _ := rj.NumValue(lit)
		cls = append(cls, "type:"+string(t))
		if fl {
			cls = append(cls, "flag:overflowed-integer")
		}
	} else {
		cls = append(cls, "type:infinite(reject)")
	}
	if pre > 0 {
		cls = append(cls, fmt.Sprintf("members-before:%d", bucket(pre)))
	}
	cl.Eval(!c03Trivial(lit), evidHash([]byte(lit), []byte{byte(ctx % len(c03Contexts)), byte(pre), byte(pre >> 8)}), cls...)
	cl.Sample(func() interface{} {
		return map[string]interface{}{"literal": clipS(lit), "ctx": c03Contexts[ctx%len(c03Contexts)].pre + "_" + c03Contexts[ctx%len(c03Contexts)].post, "class": class}
	})
}

func clipS(s string) string {
	if len(s) > 120 {
		return s[:60] + "..." + s[len(s)-40:]
	}
	return s
}

// prngNumberLit: volume generator (a literal is an atomic case; no shrinking needed).
func prngNumberLit(r *prng) (string, string) {
	switch r.intn(10) {
	case 0: // integers of 1..25 digits
		n := 1 + r.intn(25)
		var sb strings.Builder
		if r.bool() {
			sb.WriteByte('-')
		}
		sb.WriteByte(byte('1' + r.intn(9)))
		for i := 1; i < n; i++ {
			sb.WriteByte(byte('0' + r.intn(10)))
		}
		return sb.String(), "int-digits"
	case 1: // near int64/uint64 boundaries
		base := []string{"9223372036854775807", "18446744073709551615", "9223372036854775808", "18446744073709551616", "10000000000000000000", "100000000000000000000"}[r.intn(6)]
		n, _ := new(big.Int).SetString(base, 10)
		n.Add(n, big.NewInt(int64(r.intn(2001)-1000)))
		s := n.String()
		if r.intn(3) == 0 {
			s = "-" + s
		}
		return s, "int-boundary"
	case 2, 3: // random double rendered with 17..25 significant digits, last digits perturbed
		b := r.u64()
		if (b>>52)&0x7ff == 0x7ff {
			b &^= 1 << 52
		}
		f := math.Float64frombits(b)
		prec := 15 + r.intn(11)
		s := strconv.FormatFloat(f, "eEf"[r.intn(2)], prec, 64)
		if len(s) > 400 {
			s = strconv.FormatFloat(f, 'e', prec, 64)
		}
		return s, "double-perturbed"
	case 4: // shortest
		b := r.u64()
		if (b>>52)&0x7ff == 0x7ff {
			b &^= 1 << 52
		}
		f := math.Float64frombits(b)
		s := strconv.FormatFloat(f, "eEfg"[r.intn(4)], -1, 64)
		if len(s) > 400 {
			s = strconv.FormatFloat(f, 'e', -1, 64)
		}
		return s, "double-shortest"
	case 5: // halfway
		b := r.u64()
		switch r.intn(4) {
		case 0:
			b &= (1 << 52) - 1 // subnormal
		case 1:
			b = (b & ((1 << 52) - 1)) | uint64(1000+r.intn(100))<<52
		}
		if (b>>52)&0x7ff >= 0x7fe {
			b &^= 3 << 61
		}
		s := halfwayLiteral(b, r.intn(3)-1, r.intn(3))
		if len(s) > 1000 || !rj.ValidNumberLiteral(s) {
			return "0.5", "halfway"
		}
		if r.intn(4) == 0 {
			s = "-" + s
		}
		return s, "halfway"
	case 6: // grammar-driven with exponent spellings
		var sb strings.Builder
		if r.bool() {
			sb.WriteByte('-')
		}
		if r.intn(3) == 0 {
			sb.WriteByte('0')
		} else {
			sb.WriteString(strconv.FormatUint(1+r.u64()>>uint(r.intn(64)), 10))
		}
		if r.bool() {
			sb.WriteByte('.')
			n := 1 + r.intn(25)
			for i := 0; i < n; i++ {
				sb.WriteByte(byte('0' + r.intn(10)))
			}
		}
		if r.bool() {
			sb.WriteByte("eE"[r.intn(2)])
			sb.WriteString([]string{"", "+", "-"}[r.intn(3)])
			sb.WriteString(strings.Repeat("0", r.intn(3)))
			sb.WriteString(strconv.Itoa(r.intn(345)))
		}
		return sb.String(), "grammar"
	case 7: // around the overflow threshold and the smallest subnormal
		s := []string{"1.7976931348623157", "1.7976931348623158", "1.79769313486231570", "1.797693134862315807", "1.797693134862315808", "1.7976931348623159", "4.9406564584124654", "2.4703282292062327", "2.4703282292062328", "2.2250738585072014", "2.2250738585072011"}[r.intn(11)]
		s += strings.Repeat(strconv.Itoa(r.intn(10)), r.intn(4))
		e := []string{"e308", "E+308", "e-324", "e-308", "e307", "e309", "e-323", "e-325"}[r.intn(8)]
		return s + e, "range-edge"
	case 8: // integers x 10^k written as integers (long digit strings)
		n := 18 + r.intn(300)
		var sb strings.Builder
		if r.intn(4) == 0 {
			sb.WriteByte('-')
		}
		sb.WriteByte(byte('1' + r.intn(9)))
		for i := 1; i < n; i++ {
			if r.intn(3) == 0 {
				sb.WriteByte('0')
			} else {
				sb.WriteByte(byte('0' + r.intn(10)))
			}
		}
		return sb.String(), "long-int"
	case 9:
		if r.bool() {
			return numberPool[r.intn(len(numberPool))], "pool"
		}
		// tiny values written without exponent: 0.000...0ddd (up to 340 zeros, so down to subnormals and zero)
		var sb strings.Builder
		if r.intn(4) == 0 {
			sb.WriteByte('-')
		}
		sb.WriteString("0.")
		sb.WriteString(strings.Repeat("0", r.intn([]int{30, 30, 340}[r.intn(3)])))
		nd := 1 + r.intn(17)
		sb.WriteByte(byte('1' + r.intn(9)))
		for i := 1; i < nd; i++ {
			sb.WriteByte(byte('0' + r.intn(10)))
		}
		return sb.String(), "tiny-plain-decimal"
	default:
		return numberPool[r.intn(len(numberPool))], "pool"
	}
}

func TestC03_Exhaustive(t *testing.T) {
	maxLen := 6
	if thorough() {
		maxLen = 7
	}
	alpha := []byte("0159-.eE+")
	buf := make([]byte, 0, 8)
	idx := 0
	var rec func()
	rec = func() {
		if len(buf) > 0 && rj.ValidNumberLiteral(string(buf)) {
			idx++
			if idx%envNShards == envShard {
				c03Eval(t, string(buf), idx, "exhaustive")
				c03Eval(t, string(buf), idx+6, "exhaustive")
			}
		}
		if len(buf) == maxLen {
			return
		}
		for _, a := range alpha {
			buf = append(buf, a)
			rec()
			buf = buf[:len(buf)-1]
		}
	}
	rec()
	col("C03").Exhaustive(fmt.Sprintf("every grammar-valid literal of length <= %d over the alphabet %q (%d literals)", maxLen, alpha, idx))
	col("C03").Completed("TestC03_Exhaustive")
}

func TestC03_Pools(t *testing.T) {
	idx := 0
	for _, lit := range numberPool {
		for ctx := range c03Contexts {
			idx++
			if idx%envNShards == envShard {
				c03Eval(t, lit, ctx, "pool")
			}
		}
	}
	// +-3 around 2^63, 2^64, 10^19, 10^20 with both signs
	for _, base := range []string{"9223372036854775808", "18446744073709551616", "10000000000000000000", "100000000000000000000", "9007199254740992"} {
		n, _ := new(big.Int).SetString(base, 10)
		for d := int64(-3); d <= 3; d++ {
			m := new(big.Int).Add(n, big.NewInt(d))
			for _, s := range []string{m.String(), "-" + m.String(), m.String() + ".0", m.String() + "e0", m.String() + ".5"} {
				idx++
				if idx%envNShards == envShard {
					c03Eval(t, s, idx, "boundary")
				}
			}
		}
	}
	// powers of ten as integers and in exponent spelling
	for k := 0; k <= 40; k++ {
		for _, s := range []string{"1" + strings.Repeat("0", k), "1e" + strconv.Itoa(k), "1E+" + strconv.Itoa(k), "0." + strings.Repeat("0", k) + "1", "1e-" + strconv.Itoa(k)} {
			idx++
			if idx%envNShards == envShard {
				c03Eval(t, s, idx, "pow10")
			}
		}
	}
	for k := -330; k <= 310; k += 1 {
		idx++
		if idx%envNShards == envShard {
			c03Eval(t, "1e"+strconv.Itoa(k), idx, "pow10")
			c03Eval(t, "9.999999999999999999e"+strconv.Itoa(k), idx+1, "pow10")
		}
	}
	col("C03").Completed("TestC03_Pools")
}

func TestC03_Random(t *testing.T) {
	r := newPRNG("C03_Random")
	n := nCases(1_000_000, 10_000_000)
	for i := 0; i < n; i++ {
		lit, class := prngNumberLit(r)
		c03Eval(t, lit, r.intn(len(c03Contexts)), class)
	}
	col("C03").Completed("TestC03_Random")
}

// TestC03_Rapid: the rapid literal generator (shared with the document generators), so that failures shrink.
func TestC03_Rapid(t *testing.T) {
	runRapid(t, "C03_Rapid", nCases(80_000, 800_000), func(t *rapid.T) {
		lit := genNumberLit(t)
		pre := 0
		if rapid.IntRange(0, 2).Draw(t, "withpre") == 0 {
			// every position up to 300, so that the literal meets every growth step of the tape
			pre = rapid.IntRange(1, 300).Draw(t, "pre")
			if rapid.IntRange(0, 7).Draw(t, "bigpre") == 0 {
				pre = rapid.IntRange(300, 5000).Draw(t, "prebig")
			}
		}
		c03EvalPre(t, lit, rapid.IntRange(0, len(c03Contexts)-1).Draw(t, "ctx"), pre, "rapid")
	})
	col("C03").Completed("TestC03_Rapid")
}

// TestC03_Growth: literals of every exposure class placed behind 1..300 (and some thousands of) small members, in an
// array and in an object, so that each is written at every growth step of the tape and of the other internal buffers.
func TestC03_Growth(t *testing.T) {
	lits := []string{"18446744073709551616", "-9223372036854775809", "123456789012345678901234567890", "18446744073709551615", "-9223372036854775808", "1.5", "1e300", "-0.0", "9223372036854775807"}
	idx := 0
	pres := []int{}
	for p := 1; p <= 300; p++ {
		pres = append(pres, p)
	}
	for _, p := range []int{500, 511, 512, 513, 1000, 1023, 1024, 1025, 2047, 2048, 2049, 4095, 4096, 4097, 8191, 8192, 8193, 16383, 16384, 16385} {
		pres = append(pres, p)
	}
	for _, lit := range lits {
		for _, pre := range pres {
			for _, ctx := range []int{0, 6, 1, 7} {
				idx++
				if idx%envNShards != envShard {
					continue
				}
				if pre > 300 && ctx != 0 && ctx != 6 {
					continue
				}
				c03EvalPre(t, lit, ctx, pre, "growth-sweep")
			}
		}
	}
	col("C03").Exhaustive("9 literals of every exposure class behind 1..300 members (array and object contexts)")
	col("C03").Completed("TestC03_Growth")
}
