package props

import (
	"bytes"
	"encoding/json"
	"fmt"
	"os"
	"path/filepath"
	"strconv"
	"strings"
	"testing"

	simdjson "github.com/minio/simdjson-go"
	"pgregory.net/rapid"

	rj "verifharness/internal/refjson"
)

// C11: Serialize/Deserialize round-trips every tape in every mode.

type serStep struct {
	OnDe  bool `json:"on_de"` // act on the deserializing Serializer (else on the serializing one)
	Deser bool `json:"deser"` // Deserialize an auxiliary blob (else Serialize an auxiliary document)
	Mode  int  `json:"mode"`
	Aux   int  `json:"aux"`
	Reuse bool `json:"reuse"` // Deserialize into the shared destination object
}

type c11Case struct {
	H       historyCase `json:"h"`
	SerMode int         `json:"ser_mode"`
	DeMode  int         `json:"de_mode"`
	Hist    []serStep   `json:"hist"`
	DstUsed bool        `json:"dst_used"` // final Deserialize goes into the (already used) shared destination
	Shape   string      `json:"shape,omitempty"`
}

var c11Aux = []string{
	`[1]`,
	`{"a":"b","c":["b","a","b"],"d":-1.5e3}`,
	`["` + strings.Repeat("x", 5000) + `","y"]`,
	`[` + strings.Repeat(`"dup",`, 3000) + `1]`,
	`{"deep":[[[[[[[[1,2,3]]]]]]]],"n":null,"t":true,"f":false,"u":18446744073709551615,"big":123456789012345678901}`,
}

// buildEdited parses the document and applies the history (no invariants; they are C13/C14's business).
func buildEdited(h historyCase) (*simdjson.ParsedJson, []*rj.Node, error) {
	roots, err := parseModelRoots(h.Doc, h.ND)
	if err != nil {
		return nil, nil, err
	}
	doc := append([]byte(nil), h.Doc...)
	var pj *simdjson.ParsedJson
	if h.ND {
		pj, err = simdjson.ParseND(doc, nil, simdjson.WithCopyStrings(h.Copy))
	} else {
		pj, err = simdjson.Parse(doc, nil, simdjson.WithCopyStrings(h.Copy))
	}
	if err != nil {
		return nil, nil, fmt.Errorf("valid document rejected: %v: %q", err, clip(h.Doc))
	}
	if h.ViaBlob {
		s := simdjson.NewSerializer()
		if pj, err = s.Deserialize(s.Serialize(nil, *pj), nil); err != nil {
			return nil, nil, fmt.Errorf("Deserialize(Serialize(tape)): %v", err)
		}
	}
	for step, op := range h.Ops {
		wantErr, _, err := applyModel(roots, op)
		if err != nil {
			return nil, nil, err
		}
		apiErr, _, err := applyReal(pj, roots, op)
		if err != nil {
			return nil, nil, fmt.Errorf("step %d (%v): %v", step, op, err)
		}
		if wantErr != (apiErr != nil) {
			return nil, nil, fmt.Errorf("step %d (%v): error expectation %v, got %v", step, op, wantErr, apiErr)
		}
	}
	return pj, roots, nil
}

func c11Check(c c11Case) error {
	pj, roots, err := buildEdited(c.H)
	if err != nil {
		return err
	}
	ser := simdjson.NewSerializer()
	de := simdjson.NewSerializer()
	var dst *simdjson.ParsedJson
	var scratch []byte
	// earlier calls on the same Serializers / destination
	for i, st := range c.Hist {
		s := ser
		if st.OnDe {
			s = de
		}
		s.CompressMode(simdjson.CompressMode(st.Mode % 4))
		aux := []byte(c11Aux[st.Aux%len(c11Aux)])
		apj, err := simdjson.Parse(append([]byte(nil), aux...), nil)
		if err != nil {
			return bugf("aux doc rejected: %v", err)
		}
		blob := s.Serialize(scratch[:0], *apj)
		if st.Deser && st.Reuse && st.Aux%2 == 1 {
			// an earlier call that fails late (unknown type of the last block) on this Serializer and destination
			bad := append([]byte(nil), blob...)
			if f, _, ferr := walkFrame(bad); ferr == nil && f.vals.present && len(f.vals.data) > 0 {
				bad[len(bad)-len(f.vals.data)-1] = 0x7f
				if _, err := s.Deserialize(bad, dst); err == nil {
					return fmt.Errorf("history step %d: Deserialize accepted an unknown block type", i)
				}
			}
		}
		if st.Deser {
			var d *simdjson.ParsedJson
			if st.Reuse {
				d = dst
			}
			out, err := s.Deserialize(blob, d)
			if err != nil {
				return fmt.Errorf("history step %d: Deserialize of an auxiliary blob failed: %v", i, err)
			}
			am, _ := parseModelRoots(aux, false)
			if err := compareWalkers(out, []walker{wW1}, func(o canonOpts) []byte { return modelCanonAll(am, o) }); err != nil {
				return fmt.Errorf("history step %d (auxiliary document %d, mode %d): %v", i, st.Aux, st.Mode, err)
			}
			if st.Reuse {
				dst = out
			}
		} else {
			scratch = blob
		}
	}
	ser.CompressMode(simdjson.CompressMode(c.SerMode % 4))
	de.CompressMode(simdjson.CompressMode(c.DeMode % 4))
	blob := ser.Serialize(nil, *pj)
	blobCopy := append([]byte(nil), blob...)
	var d *simdjson.ParsedJson
	if c.DstUsed {
		d = dst
	}
	out, err := de.Deserialize(blob, d)
	if err != nil {
		return fmt.Errorf("Deserialize(Serialize(tape)) failed (modes %d -> %d): %v", c.SerMode%4, c.DeMode%4, err)
	}
	if !bytes.Equal(blob, blobCopy) {
		return fmt.Errorf("Deserialize modified its input")
	}
	mc := func(o canonOpts) []byte { return modelCanonAll(roots, o) }
	if err := compareWalkers(out, []walker{wW1, wW2, wW3, wW4, wW5}, mc); err != nil {
		return fmt.Errorf("modes %d -> %d: deserialized tape differs from the document: %v", c.SerMode%4, c.DeMode%4, err)
	}
	if _, err := tapeCheck(out, true); err != nil {
		return fmt.Errorf("modes %d -> %d: deserialized tape format: %v", c.SerMode%4, c.DeMode%4, err)
	}
	// the original is untouched by serialization
	if err := compareWalkers(pj, []walker{wW1}, mc); err != nil {
		return fmt.Errorf("Serialize changed the source tape: %v", err)
	}
	// same bytes through a fresh Serializer
	out2, err := simdjson.NewSerializer().Deserialize(blob, nil)
	if err != nil {
		return fmt.Errorf("fresh Serializer cannot read the blob: %v", err)
	}
	if err := compareWalkers(out2, []walker{wW1}, mc); err != nil {
		return fmt.Errorf("fresh Serializer: %v", err)
	}
	// a second round trip of the deserialized tape (tapes with reconstructed NOP runs are tapes too)
	blob2 := de.Serialize(nil, *out)
	out3, err := ser.Deserialize(blob2, nil)
	if err != nil {
		return fmt.Errorf("second round trip failed: %v", err)
	}
	if err := compareWalkers(out3, []walker{wW1, wW5}, mc); err != nil {
		return fmt.Errorf("second round trip: %v", err)
	}
	// exchange with the noasm build
	if dir := os.Getenv("VERIF_EXCHANGE_OUT"); dir != "" {
		exchangeWrite(dir, blob, mc(canonOpts{}))
	}
	return nil
}

var exchangeN int

func exchangeWrite(dir string, blob, canon []byte) {
	if exchangeN >= 400 || len(blob) > 1<<20 {
		return
	}
	exchangeN++
	base := filepath.Join(dir, fmt.Sprintf("x%02d-%05d", envShard, exchangeN))
	_ = os.WriteFile(base+".blob", blob, 0o644)
	_ = os.WriteFile(base+".canon", canon, 0o644)
}

var c11Run = register("C11", "roundtrip", c11Check)

// noasm exchange: replay kind used by the noasm-built binary.
type exchangeCase struct {
	Blob  []byte `json:"blob"`
	Canon []byte `json:"canon"`
}

func c11ExchangeCheck(c exchangeCase) error {
	out, err := simdjson.NewSerializer().Deserialize(append([]byte(nil), c.Blob...), nil)
	if err != nil {
		return fmt.Errorf("build without assembly cannot deserialize a blob written by the assembly build: %v", err)
	}
	got, err := walkW1(out)
	if err != nil {
		return fmt.Errorf("build without assembly: traversal failed: %v", err)
	}
	if !bytes.Equal(got, c.Canon) {
		return fmt.Errorf("build without assembly reads a different document: %s", diffCanon(c.Canon, got))
	}
	got2, err := walkW2(out)
	if err != nil || !bytes.Equal(got2, c.Canon) {
		return fmt.Errorf("build without assembly (AdvanceInto walk): %v %s", err, diffCanon(c.Canon, got2))
	}
	return nil
}

var c11ExchangeRun = register("C11", "exchange", c11ExchangeCheck)

// TestC11N_Exchange runs in the noasm-built binary: reads what the asm shards wrote.
func TestC11N_Exchange(t *testing.T) {
	dir := os.Getenv("VERIF_EXCHANGE")
	if dir == "" {
		t.Skip("VERIF_EXCHANGE not set")
	}
	if simdjson.SupportedCPU() {
		t.Fatalf("HARNESS-BUG: this binary was not built with the noasm tag")
	}
	files, _ := filepath.Glob(filepath.Join(dir, "exchange", "*.blob"))
	cl := col("C11")
	for _, f := range files {
		blob, err1 := os.ReadFile(f)
		canon, err2 := os.ReadFile(strings.TrimSuffix(f, ".blob") + ".canon")
		if err1 != nil || err2 != nil {
			continue
		}
		c := exchangeCase{Blob: blob, Canon: canon}
		c11ExchangeRun(t, c)
		cl.Eval(bytes.ContainsAny(canon, "[{"), evidHash(blob, []byte("noasm")), "noasm-exchange")
	}
	cl.Class("noasm-files", int64(len(files)))
	cl.Completed("TestC11N_Exchange")
}

func genC11Doc(t *rapid.T) (historyCase, string) {
	mix := opMix{sets: true, delObj: true, delArr: true, setNullContainer: true, nullRoot: true}
	kind := rapid.IntRange(0, 10).Draw(t, "c11doc")
	if kind >= 4 {
		return genHistory(t, mix, 6, editProfiles), "edited-doc"
	}
	if kind == 3 {
		// one long NOP run (tens to thousands of entries) in the middle of live data: a big member is deleted or set to
		// null, or a long run of elements is deleted from it
		n := rapid.IntRange(40, 1500).Draw(t, "biglen")
		el := []string{"1", "2.5", `"s"`, "null", `{"k":[1]}`, "[[]]"}[rapid.IntRange(0, 5).Draw(t, "bigel")]
		var b bytes.Buffer
		b.WriteString(`{"keep":[1,"two"],"big":[`)
		for i := 0; i < n; i++ {
			if i > 0 {
				b.WriteByte(',')
			}
			b.WriteString(el)
		}
		b.WriteString(`],"after":"x","tail":{"a":1.5,"b":[true]}}`)
		var op editOp
		switch rapid.IntRange(0, 2).Draw(t, "bigop") {
		case 0:
			op = editOp{Kind: "SetNull", Path: []int{0, 1}, Nav: rapid.IntRange(0, 1).Draw(t, "nav")}
		case 1:
			op = editOp{Kind: "DelObj", Path: []int{0}, Nav: 1, UseFn: true, Del: []bool{false, true, false, false}}
		default:
			at := rapid.IntRange(0, n-1).Draw(t, "at")
			ln := rapid.IntRange(1, n-at).Draw(t, "ln")
			del := make([]bool, n)
			for i := at; i < at+ln; i++ {
				del[i] = true
			}
			op = editOp{Kind: "DelArr", Path: []int{0, 1}, Nav: 1, UseFn: true, Del: del}
		}
		return historyCase{Doc: b.Bytes(), Copy: rapid.Bool().Draw(t, "copy"), Ops: []editOp{op}}, "long-nop-run"
	}
	// shapes that stress the string table and the 64 KiB flush blocks
	var b bytes.Buffer
	var shape string
	switch kind {
	case 0: // many distinct strings (> 16384: bucket collisions guaranteed) and many duplicates
		n := rapid.IntRange(100, 40000).Draw(t, "nstr")
		dupEvery := rapid.IntRange(1, 7).Draw(t, "dup")
		b.WriteByte('[')
		for i := 0; i < n; i++ {
			if i > 0 {
				b.WriteByte(',')
			}
			b.WriteByte('"')
			if i%dupEvery == 0 {
				b.WriteString("dup")
			} else {
				b.WriteString("s" + strconv.Itoa(i))
			}
			b.WriteByte('"')
		}
		b.WriteByte(']')
		shape = "string-table"
	case 1: // tag / value block boundaries: ~65536 tags, ~8192 values
		base := []int{65536, 65536 / 2, 8192, 8192 / 2, 131072}[rapid.IntRange(0, 4).Draw(t, "base")]
		n := base + rapid.IntRange(-3, 3).Draw(t, "d")
		el := []string{"1", "null", `"a"`, "[]", "1.5"}[rapid.IntRange(0, 4).Draw(t, "el")]
		b.WriteByte('[')
		for i := 0; i < n; i++ {
			if i > 0 {
				b.WriteByte(',')
			}
			b.WriteString(el)
		}
		b.WriteByte(']')
		shape = "flush-boundary"
		if rapid.Bool().Draw(t, "gap") {
			// delete a run of elements so that the NOP run crosses the 65536-tag boundary of the serializer's tag buffer
			at := (65536 * (1 + rapid.IntRange(0, 1).Draw(t, "bk"))) - 2 + rapid.IntRange(-5, 5).Draw(t, "gd")
			ln := rapid.IntRange(1, 40).Draw(t, "glen")
			if rapid.IntRange(0, 3).Draw(t, "biggap") == 0 {
				ln = rapid.IntRange(1000, 70000).Draw(t, "gbig")
			}
			if at < 0 {
				at = 0
			}
			if at+ln <= n {
				del := make([]bool, n)
				for i := at; i < at+ln; i++ {
					del[i] = true
				}
				return historyCase{Doc: b.Bytes(), Copy: rapid.Bool().Draw(t, "copy"), Ops: []editOp{{Kind: "DelArr", Path: []int{0}, Nav: 1, UseFn: true, Del: del}}}, "flush-boundary-gap"
			}
		}
	default: // long strings
		n := rapid.IntRange(60000, 140000).Draw(t, "slen")
		if rapid.IntRange(0, 5).Draw(t, "mib") == 0 {
			n = rapid.IntRange(1<<20+1, 1<<20+200000).Draw(t, "slenbig") // beyond 1 MiB
		}
		if rapid.IntRange(0, 39).Draw(t, "manymib") == 0 {
			// more than 8 MiB of distinct string data
			cnt := rapid.IntRange(1100, 1400).Draw(t, "cnt")
			b.WriteByte('[')
			for i := 0; i < cnt; i++ {
				if i > 0 {
					b.WriteByte(',')
				}
				b.WriteString(`"` + strconv.Itoa(i) + `-` + strings.Repeat(string(rune('a'+i%26)), 8000) + `"`)
			}
			b.WriteString(`,"last"]`)
			return historyCase{Doc: b.Bytes(), Copy: rapid.Bool().Draw(t, "copy")}, "strings-beyond-8MiB"
		}
		b.WriteString(`{"k":"` + strings.Repeat("L", n) + `","e":"","k2":"` + strings.Repeat("é", n/4) + `"}`)
		shape = "long-strings"
	}
	return historyCase{Doc: b.Bytes(), Copy: rapid.Bool().Draw(t, "copy")}, shape
}

func TestC11_RoundTrips(t *testing.T) {
	xdir := ""
	if envOut != "" {
		xdir = filepath.Join(filepath.Dir(envOut), "exchange")
		_ = os.MkdirAll(xdir, 0o755)
		os.Setenv("VERIF_EXCHANGE_OUT", xdir)
	}
	runRapid(t, "C11_RoundTrips", nCases(25_000, 250_000), func(t *rapid.T) {
		h, shape := genC11Doc(t)
		c := c11Case{H: h, SerMode: rapid.IntRange(0, 3).Draw(t, "sermode"), DeMode: rapid.IntRange(0, 3).Draw(t, "demode"), Shape: shape}
		nh := rapid.IntRange(0, 4).Draw(t, "nhist")
		for i := 0; i < nh; i++ {
			c.Hist = append(c.Hist, serStep{
				OnDe: rapid.Bool().Draw(t, "onde"), Deser: rapid.Bool().Draw(t, "deser"), Mode: rapid.IntRange(0, 3).Draw(t, "hmode"),
				Aux: rapid.IntRange(0, len(c11Aux)-1).Draw(t, "aux"), Reuse: rapid.Bool().Draw(t, "reuse"),
			})
		}
		c.DstUsed = rapid.Bool().Draw(t, "dstused")
		c11Run(t, c)
		cl := col("C11")
		f := historyFactsOf(h)
		ops, _ := json.Marshal(c)
		nt := bytes.ContainsAny(h.Doc, "\"") && (f.nopGap || h.ND || shape != "edited-doc" || len(c.Hist) > 0)
		cl.Eval(nt, evidHash(ops), "shape:"+shape, fmt.Sprintf("modes:%d->%d", c.SerMode, c.DeMode), boolClass("nop-gap", f.nopGap), boolClass("nd", h.ND), boolClass("history", len(c.Hist) > 0), boolClass("dst-reused", c.DstUsed))
		cl.Sample(func() interface{} {
			return map[string]interface{}{"doc": clip(h.Doc), "ops": len(h.Ops), "ser_mode": c.SerMode, "de_mode": c.DeMode, "hist": c.Hist, "shape": shape}
		})
	})
	col("C11").Completed("TestC11_RoundTrips")
}

// TestC11_StaleBytes: the second document's strings are prefixes / extensions of what the previous Serialize call left
// at the same positions of the Serializer's string buffer. A lookup in the deduplication table must never match bytes
// that belong to an earlier call, even when the two strings share a hash bucket (16 384 buckets; with thousands of
// (P, P+T) pairs per document a few colliding pairs occur in every run, whatever the process-random hash seed is).
type c11StaleCase struct {
	Pairs int    `json:"pairs"`
	P     int    `json:"p"`
	T     int    `json:"t"`
	Seed  uint64 `json:"seed"`
	Mode  int    `json:"mode"`
}

func c11StaleCheck(c c11StaleCase) error {
	r := &prng{s: c.Seed | 1}
	letters := "abcdefghijklmnopqrstuvwxyz0123456789"
	word := func(n int) string {
		b := make([]byte, n)
		for i := range b {
			b[i] = letters[r.intn(len(letters))]
		}
		return string(b)
	}
	p, tl := c.P, c.T
	if p < 6 {
		p = 6
	}
	if tl < 1 {
		tl = 1
	}
	var ps, ls []string
	var layout strings.Builder
	for j := 0; j < c.Pairs; j++ {
		pj := fmt.Sprintf("%05d", j) + word(p-5)
		lj := pj + word(tl)
		ps, ls = append(ps, pj), append(ls, lj)
		// layout of document B in the string buffer: P_j | L_j ; document A leaves L_j where P_j will be written
		layout.WriteString(lj)
		layout.WriteString(word(p))
	}
	docA := `["` + layout.String() + `"]`
	var b strings.Builder
	b.WriteByte('[')
	for j := range ps {
		if j > 0 {
			b.WriteByte(',')
		}
		b.WriteString(`"` + ps[j] + `","` + ls[j] + `"`)
	}
	b.WriteByte(']')
	docB := b.String()
	pa, err := simdjson.Parse([]byte(docA), nil)
	if err != nil {
		return bugf("%v", err)
	}
	pb, err := simdjson.Parse([]byte(docB), nil)
	if err != nil {
		return bugf("%v", err)
	}
	s := simdjson.NewSerializer()
	s.CompressMode(simdjson.CompressMode(c.Mode % 4))
	_ = s.Serialize(nil, *pa)
	blob := s.Serialize(nil, *pb)
	out, err := simdjson.NewSerializer().Deserialize(blob, nil)
	if err != nil {
		return fmt.Errorf("second blob written by a reused Serializer cannot be read: %v", err)
	}
	got, err := stringsInOrder(out)
	if err != nil {
		return err
	}
	if len(got) != 2*len(ps) {
		return fmt.Errorf("%d strings after the round trip, want %d", len(got), 2*len(ps))
	}
	for j := range ps {
		if string(got[2*j]) != ps[j] || string(got[2*j+1]) != ls[j] {
			return fmt.Errorf("pair %d comes back as %q, %q; want %q, %q (the Serializer had processed another document before)", j, got[2*j], got[2*j+1], ps[j], ls[j])
		}
	}
	return nil
}

var c11StaleRun = register("C11", "stale-bytes", c11StaleCheck)

func TestC11_StaleBytes(t *testing.T) {
	r := newPRNG("C11_StaleBytes")
	n := nCases(160, 4000)
	for i := 0; i < n; i++ {
		c := c11StaleCase{Pairs: 3000 + r.intn(3000), P: 6 + r.intn(10), T: 1 + r.intn(8), Seed: r.u64(), Mode: r.intn(4)}
		c11StaleRun(t, c)
		raw, _ := json.Marshal(c)
		col("C11").Eval(true, evidHash(raw), "shape:stale-bytes-after-reuse", fmt.Sprintf("modes:%d->fresh", c.Mode))
	}
	col("C11").Completed("TestC11_StaleBytes")
}
