package props

import (
	"bytes"
	"fmt"
	"strings"
	"testing"
	"unicode/utf8"

	simdjson "github.com/minio/simdjson-go"
	"pgregory.net/rapid"

	rj "verifharness/internal/refjson"
)

// C04: string escapes decode exactly, independent of length and alignment.

type c04Case struct {
	Src  []byte `json:"src"`  // text between the quotes
	Exp  []byte `json:"exp"`  // expected decoded bytes (ignored when Bad)
	Bad  bool   `json:"bad"`  // the string is malformed: the document must be rejected
	Off  int    `json:"off"`  // offset of the opening quote in the input
	Form int    `json:"form"` // 0 array element, 1 object key, 2 object value, 3 array element followed by more content
	Tail int    `json:"tail"` // white-space bytes between the string and the closing bracket
	Pre  int    `json:"pre"`  // 0: white-space padding up to Off; 1: a filler string element before
}

func (c c04Case) build() []byte {
	var b bytes.Buffer
	open := "["
	if c.Form == 1 || c.Form == 2 {
		open = "{"
	}
	b.WriteString(open)
	if c.Form == 2 {
		b.WriteString(`"k":`)
	}
	if c.Pre == 1 && c.Form != 1 && c.Form != 2 && c.Off > b.Len()+4 {
		b.WriteByte('"')
		for b.Len() < c.Off-2 {
			b.WriteByte('f')
		}
		b.WriteString(`",`)
	}
	for b.Len() < c.Off {
		b.WriteByte(' ')
	}
	b.WriteByte('"')
	b.Write(c.Src)
	b.WriteByte('"')
	if c.Form == 1 {
		b.WriteString(":1")
	}
	if c.Form == 3 {
		b.WriteString(`,"` + strings.Repeat("t", 80) + `",[1,2,{"x":null}]`)
	}
	b.WriteString(strings.Repeat(" ", c.Tail))
	if open == "[" {
		b.WriteByte(']')
	} else {
		b.WriteByte('}')
	}
	return b.Bytes()
}

// stringsInOrder returns every string on the tape (keys and values) in tape order via the raw tag walk.
func stringsInOrder(pj *simdjson.ParsedJson) ([][]byte, error) {
	it := pj.Iter()
	var out [][]byte
	for {
		tag := it.AdvanceInto()
		if tag == simdjson.TagEnd {
			return out, nil
		}
		if tag == simdjson.TagString {
			b, err := it.StringBytes()
			if err != nil {
				return nil, err
			}
			s, err := it.String()
			if err != nil || s != string(b) {
				return nil, fmt.Errorf("String() %q (%v) != StringBytes() %q", s, err, b)
			}
			out = append(out, b)
		}
	}
}

func c04Check(c c04Case) error {
	in := c.build()
	v, model := rj.Classify(in)
	if v == rj.Either {
		col("C04").Skip("EITHER class (ill-formed surrogate / non-UTF-8)")
		return nil
	}
	if c.Bad != (v == rj.MustReject) {
		return bugf("constructive expectation (bad=%v) disagrees with the reference parser (%v) on %q", c.Bad, v, clip(in))
	}
	var want [][]byte
	if !c.Bad {
		// collect expected strings from the reference parse and cross-check the target with the constructive bytes
		var collect func(n *rj.Node)
		collect = func(n *rj.Node) {
			switch n.K {
			case rj.Str:
				want = append(want, n.S)
			case rj.Arr:
				for _, x := range n.A {
					collect(x)
				}
			case rj.Obj:
				for _, m := range n.O {
					want = append(want, m.Key)
					collect(m.Val)
				}
			}
		}
		collect(model)
		ti := c.targetIndex()
		if ti >= len(want) || !bytes.Equal(want[ti], c.Exp) {
			return bugf("constructive expected bytes %q differ from the reference decode %q for source %q", c.Exp, want[min(ti, len(want)-1)], clip(c.Src))
		}
	}
	for _, cfg := range parseCfgsSib(in) {
		buf := append([]byte(nil), in...)
		pj, err := parseWith(cfg, buf, false)
		if c.Bad {
			if err == nil {
				return fmt.Errorf("[%s] malformed string accepted: %q (opening quote at offset %d)", cfg, clip(in), c.Off)
			}
			continue
		}
		if err != nil {
			return fmt.Errorf("[%s] valid string rejected (%v): %q (opening quote at offset %d)", cfg, err, clip(in), c.Off)
		}
		got, err := stringsInOrder(pj)
		if err != nil {
			return fmt.Errorf("[%s] reading strings: %v", cfg, err)
		}
		if len(got) != len(want) {
			return fmt.Errorf("[%s] %d strings on the tape, want %d: %q", cfg, len(got), len(want), clip(in))
		}
		for i := range want {
			if !bytes.Equal(got[i], want[i]) {
				return fmt.Errorf("[%s] string %d decoded as %q (len %d), want %q (len %d); source %q, opening quote at offset %d, input length %d",
					cfg, i, clip(got[i]), len(got[i]), clip(want[i]), len(want[i]), clip(c.Src), c.Off, len(in))
			}
		}
		if !bytes.Equal(buf, in) {
			return fmt.Errorf("[%s] Parse modified its input", cfg)
		}
	}
	return nil
}

func (c c04Case) targetIndex() int {
	switch {
	case c.Form == 2:
		return 1
	case c.Form == 0 || c.Form == 3:
		if c.Pre == 1 && c.Off > 1+4 {
			return 1
		}
	}
	return 0
}

var c04Run = register("C04", "string", c04Check)

func c04Eval(tb fataler, c c04Case, class string) {
	// normalise: the offset must leave room for the prefix
	minOff := 1
	if c.Form == 1 {
		minOff = 1
	}
	if c.Form == 2 {
		minOff = 5
	}
	if c.Off < minOff {
		c.Off = minOff
	}
	c04Run(tb, c)
	cl := col("C04")
	nt := c.Bad || bytes.IndexByte(c.Src, '\\') >= 0 || !isASCII(c.Src) || (c.Off%32)+len(c.Src)+2 > 32
	cl.Eval(nt, evidHash(c.Src, []byte{byte(c.Off), byte(c.Off >> 8), byte(c.Form), byte(c.Tail), byte(c.Pre)}), "class:"+class, fmt.Sprintf("form:%d", c.Form), boolClass("bad", c.Bad))
	cl.Sample(func() interface{} {
		return map[string]interface{}{"src": clip(c.Src), "expect": clip(c.Exp), "bad": c.Bad, "quote_offset": c.Off, "form": c.Form, "tail": c.Tail, "class": class}
	})
}

func boolClass(name string, b bool) string {
	if b {
		return name + ":yes"
	}
	return name + ":no"
}

func isASCII(b []byte) bool {
	for _, c := range b {
		if c >= 0x80 {
			return false
		}
	}
	return true
}

func utf8Of(cp int) []byte { return utf8.AppendRune(nil, rune(cp)) }

// TestC04_CodeUnits: every non-surrogate \uXXXX code unit, in lower, upper and mixed hex case.
func TestC04_CodeUnits(t *testing.T) {
	idx := 0
	for v := 0; v < 0x10000; v++ {
		if v >= 0xd800 && v <= 0xdfff {
			continue
		}
		idx++
		if idx%envNShards != envShard {
			continue
		}
		exp := utf8Of(v)
		patterns := []int{0, 15, (v * 7) % 16}
		if thorough() {
			patterns = []int{0, 15, 1, 2, 4, 8, 5, 10, (v * 7) % 16, (v * 11) % 16}
		}
		for pi, cb := range patterns {
			src := []byte(`\u` + hex4Case(v, cb))
			// rotate offsets and forms so that the escape meets every window position over the sweep
			off := 1 + (v*3+pi*17)%64
			c04Eval(t, c04Case{Src: src, Exp: exp, Off: off, Form: (v + pi) % 4, Tail: (v + pi) % 3}, "codeunit")
		}
		// embedded after a prefix so that the backslash lands late in the 32-byte window
		pre := strings.Repeat("p", v%40)
		c04Eval(t, c04Case{Src: []byte(pre + `\u` + hex4Case(v, (v*5)%16) + "s"), Exp: append(append([]byte(pre), exp...), 's'), Off: 1 + v%7, Form: v % 4}, "codeunit-embedded")
	}
	col("C04").Exhaustive("all 63488 non-surrogate \\uXXXX code units in lower, upper and mixed hex case")
	col("C04").Completed("TestC04_CodeUnits")
}

// TestC04_Surrogates: surrogate pairs (all 1 048 576 in the thorough tier, stratified sample + corner rows otherwise).
func TestC04_Surrogates(t *testing.T) {
	idx := 0
	do := func(hi, lo int) {
		cp := 0x10000 + (hi-0xd800)<<10 + (lo - 0xdc00)
		src := []byte(`\u` + hex4Case(hi, (hi+lo)%16) + `\u` + hex4Case(lo, (hi*3+lo)%16))
		c04Eval(t, c04Case{Src: src, Exp: utf8Of(cp), Off: 1 + (hi+lo*5)%64, Form: (hi + lo) % 4, Tail: lo % 2}, "surrogate-pair")
	}
	for hi := 0xd800; hi <= 0xdbff; hi++ {
		for lo := 0xdc00; lo <= 0xdfff; lo++ {
			corner := hi == 0xd800 || hi == 0xdbff || lo == 0xdc00 || lo == 0xdfff
			if !thorough() && !corner && (hi*31+lo*17)%26 != 0 {
				continue
			}
			idx++
			if idx%envNShards != envShard {
				continue
			}
			do(hi, lo)
		}
	}
	if thorough() {
		col("C04").Exhaustive("all 1048576 surrogate pairs")
	}
	col("C04").Completed("TestC04_Surrogates")
}

// TestC04_EscapeBytes: every byte after a backslash, every byte in each hex position of \uXXXX and of the low surrogate.
func TestC04_EscapeBytes(t *testing.T) {
	idx := 0
	valid := map[byte]byte{'"': '"', '\\': '\\', '/': '/', 'b': 8, 'f': 12, 'n': 10, 'r': 13, 't': 9}
	isHex := func(b byte) bool { return (b >= '0' && b <= '9') || (b >= 'a' && b <= 'f') || (b >= 'A' && b <= 'F') }
	for b := 0; b < 256; b++ {
		for off := 1; off <= 70; off += 1 {
			if !thorough() && (off+b)%4 != 0 {
				continue
			}
			idx++
			if idx%envNShards != envShard {
				continue
			}
			bb := byte(b)
			// \<b> followed by 4 hex digits so that \u is complete when b == 'u'
			src := append([]byte{'a', '\\', bb}, []byte("0041z")...)
			c := c04Case{Src: src, Off: off, Form: (b + off) % 4}
			if out, ok := valid[bb]; ok {
				c.Exp = append([]byte{'a', out}, []byte("0041z")...)
			} else if bb == 'u' {
				c.Exp = []byte("aAz")
			} else {
				c.Bad = true
			}
			c04Eval(t, c, "byte-after-backslash")
		}
	}
	for pos := 0; pos < 8; pos++ {
		for b := 0; b < 256; b++ {
			for _, off := range []int{1, 2, 13, 22, 27, 31, 33, 47, 59, 62, 63, 64} {
				if !thorough() && (off+b+pos)%3 != 0 {
					continue
				}
				idx++
				if idx%envNShards != envShard {
					continue
				}
				bb := byte(b)
				var src, exp []byte
				bad := false
				if pos < 4 {
					h := []byte("0041")
					h[pos] = bb
					src = append([]byte(`x\u`), h...)
					src = append(src, 'y')
					if isHex(bb) {
						var v int
						fmt.Sscanf(string(h), "%x", &v)
						if v >= 0xd800 && v <= 0xdfff {
							continue // surrogate: EITHER
						}
						exp = append(append([]byte{'x'}, utf8Of(v)...), 'y')
					} else {
						bad = true
					}
				} else {
					h := []byte("dc00")
					h[pos-4] = bb
					src = append([]byte(`x\ud83d\u`), h...)
					src = append(src, 'y')
					if isHex(bb) {
						var lo int
						fmt.Sscanf(string(h), "%x", &lo)
						if lo < 0xdc00 || lo > 0xdfff {
							continue // ill-formed pair: EITHER
						}
						cp := 0x10000 + (0xd83d-0xd800)<<10 + (lo - 0xdc00)
						exp = append(append([]byte{'x'}, utf8Of(cp)...), 'y')
					} else {
						bad = true
					}
				}
				c04Eval(t, c04Case{Src: src, Exp: exp, Bad: bad, Off: off, Form: (b + pos) % 4}, "byte-in-hex-position")
			}
		}
	}
	// raw control characters and the other raw bytes
	for b := 0; b < 0x80; b++ {
		for _, off := range []int{1, 17, 30, 31, 32, 33, 62, 63, 64, 65} {
			idx++
			if idx%envNShards != envShard {
				continue
			}
			bb := byte(b)
			if bb == '"' || bb == '\\' {
				continue
			}
			src := []byte{'a', 'b', bb, 'c'}
			c04Eval(t, c04Case{Src: src, Exp: src, Bad: bb < 0x20, Off: off, Form: b % 4}, "raw-byte")
		}
	}
	col("C04").Exhaustive("every byte value after a backslash; every byte value in each of the 4+4 hex positions; every raw ASCII byte")
	col("C04").Completed("TestC04_EscapeBytes")
}

var c04Kinds = []struct {
	src string
	out string
}{
	{`\"`, `"`}, {`\\`, `\`}, {`\/`, `/`}, {`\b`, "\b"}, {`\f`, "\f"}, {`\n`, "\n"}, {`\r`, "\r"}, {`\t`, "\t"},
	{`A`, "A"}, {`é`, "é"}, {`€`, "€"}, {`😀`, "😀"}, {"é", "é"}, {"€", "€"}, {"😀", "😀"}, {`\u0000`, "\x00"},
}

// TestC04_Positions: one escape of each kind at every position in a string whose opening quote sits at every offset mod 64.
func TestC04_Positions(t *testing.T) {
	idx := 0
	for ki, k := range c04Kinds {
		for qoff := 1; qoff <= 64; qoff++ {
			for pos := 0; pos <= 70; pos++ {
				if !thorough() && (qoff+pos+ki)%5 != 0 {
					continue
				}
				idx++
				if idx%envNShards != envShard {
					continue
				}
				pre := strings.Repeat("a", pos)
				post := strings.Repeat("z", (qoff+pos)%9)
				c04Eval(t, c04Case{Src: []byte(pre + k.src + post), Exp: []byte(pre + k.out + post), Off: qoff, Form: (ki + pos) % 4, Tail: (qoff + ki) % 2}, "position-sweep")
			}
		}
	}
	col("C04").Completed("TestC04_Positions")
}

// TestC04_Lengths: string lengths 0..4096 of raw ASCII / 2- / 3- / 4-byte runes / mixed, and strings ending near the end of input.
func TestC04_Lengths(t *testing.T) {
	idx := 0
	maxLen := 4096
	units := []string{"a", "é", "€", "😀", "ab\\n", "q\\u00e9"}
	outs := []string{"a", "é", "€", "😀", "ab\n", "qé"}
	for l := 0; l <= maxLen; l++ {
		if !thorough() && l > 640 && !(l%64 <= 1 || l%64 == 63 || l%512 <= 2 || l%512 >= 510 || l%97 == 0) {
			continue
		}
		for ui := range units {
			idx++
			if idx%envNShards != envShard {
				continue
			}
			n := l / len(units[ui])
			src := strings.Repeat(units[ui], n)
			exp := strings.Repeat(outs[ui], n)
			c04Eval(t, c04Case{Src: []byte(src), Exp: []byte(exp), Off: 1 + l%64, Form: (l + ui) % 4, Tail: l % 3}, "length-sweep")
		}
	}
	// strings ending 0..70 bytes before the end of the input (padding paths of the string parser), input < 64, ~448-512, > 512
	for _, body := range []int{0, 1, 10, 40, 60, 100, 380, 440, 447, 448, 449, 460, 500, 511, 512, 513, 600, 1000} {
		for tail := 0; tail <= 70; tail++ {
			for ki := range []int{0, 8, 11} {
				idx++
				if idx%envNShards != envShard {
					continue
				}
				k := c04Kinds[[]int{0, 8, 11}[ki]]
				pre := strings.Repeat("b", body)
				c04Eval(t, c04Case{Src: []byte(pre + k.src), Exp: []byte(pre + k.out), Off: 1, Form: ki % 3, Tail: tail}, "end-distance")
				c04Eval(t, c04Case{Src: []byte(k.src + pre), Exp: []byte(k.out + pre), Off: 1 + tail%64, Form: 0, Tail: tail}, "end-distance")
			}
		}
	}
	col("C04").Completed("TestC04_Lengths")
}

// TestC04_BackslashRuns: runs of 1..70 backslashes ending at block offsets 62,63,0,1 followed by quote / n / u0041.
func TestC04_BackslashRuns(t *testing.T) {
	idx := 0
	for n := 1; n <= 70; n++ {
		for _, endAt := range []int{61, 62, 63, 64, 65, 66, 127, 128, 129, 31, 32, 33} {
			for fi, follow := range []string{`"`, `n`, `u0041`, `x`, ``} {
				idx++
				if idx%envNShards != envShard {
					continue
				}
				// the run's last backslash sits at absolute offset endAt (mod 64 pattern), string starts so that this holds
				qoff := endAt - n // opening quote offset such that run occupies qoff+1 .. qoff+n
				lead := 0
				for qoff < 1 {
					qoff += 64
				}
				_ = lead
				src := strings.Repeat(`\`, n) + follow
				c := c04Case{Off: qoff, Form: (n + fi) % 4, Tail: n % 2}
				half := strings.Repeat(`\`, n/2)
				if n%2 == 1 {
					switch follow {
					case `"`:
						c.Exp = []byte(half + `"`)
					case `n`:
						c.Exp = []byte(half + "\n")
					case `u0041`:
						c.Exp = []byte(half + "A")
					case `x`:
						c.Bad = true
					case ``:
						// odd run directly before the closing quote: the quote is escaped and the string never closes
						c.Bad = true
					}
				} else {
					switch follow {
					case `"`:
						// the quote closes the string; what follows is a stray quote -> malformed document
						c.Bad = true
					default:
						c.Exp = []byte(half + follow)
					}
				}
				c.Src = []byte(src)
				c04Eval(t, c, "backslash-run")
			}
		}
	}
	col("C04").Completed("TestC04_BackslashRuns")
}

// TestC04_Rapid: strings from generated pieces at generated offsets (shrinkable).
func TestC04_Rapid(t *testing.T) {
	runRapid(t, "C04_Rapid", nCases(160_000, 2_000_000), func(t *rapid.T) {
		var src, exp []byte
		n := rapid.IntRange(0, 8).Draw(t, "pieces")
		for i := 0; i < n; i++ {
			src, exp = genPiece(t, src, exp, 7)
		}
		c := c04Case{Src: src, Exp: exp, Off: rapid.IntRange(1, 140).Draw(t, "off"), Form: rapid.IntRange(0, 3).Draw(t, "form"), Tail: rapid.IntRange(0, 70).Draw(t, "tail"), Pre: rapid.IntRange(0, 1).Draw(t, "pre")}
		c04Eval(t, c, "rapid-pieces")
	})
	col("C04").Completed("TestC04_Rapid")
}

// TestC04_Rollover: strings with escapes and backslash runs placed where stage 1 fills an index buffer (1408 indexes)
// and starts the next one: the state carried between 64-byte blocks (odd backslash run, inside-quote, pseudo-structural
// predecessor) must also survive the hand-over between index buffers.
func TestC04_Rollover(t *testing.T) {
	idx := 0
	srcs := []struct {
		src, exp string
		bad      bool
	}{
		{`\"x`, `"x`, false}, {`\\`, `\`, false}, {`\\\"`, `\"`, false}, {`a\nb`, "a\nb", false}, {`é\"`, "é\"", false},
		{`\\\\\\\"q`, `\\\"q`, false}, {`plain`, "plain", false}, {`\\"`, ``, true},
	}
	for _, tok := range []string{"0,", "[],", `"",`} {
		per := structuralsOf(tok)
		base := 1408 / per
		for dk := -12; dk <= 12; dk++ {
			for pad := 0; pad < 64; pad++ {
				if !thorough() && (pad+dk)%3 != 0 {
					continue
				}
				for si, s := range srcs {
					idx++
					if idx%envNShards != envShard {
						continue
					}
					// the string under test follows base+dk dense tokens and pad spaces, then more content follows
					prefix := "[" + strings.Repeat(tok, base+dk) + strings.Repeat(" ", pad)
					off := len(prefix)
					c := c04RolloverCase{Prefix: prefix, Src: []byte(s.src), Exp: []byte(s.exp), Bad: s.bad, Suffix: `,"` + strings.Repeat("t", 70+si) + `",1,2,3]`}
					_ = off
					c04RolloverRun(t, c)
					col("C04").Eval(true, evidHash([]byte(prefix), c.Src), "class:index-buffer-rollover", boolClass("bad", s.bad))
				}
			}
		}
	}
	col("C04").Completed("TestC04_Rollover")
}

type c04RolloverCase struct {
	Prefix string `json:"prefix"`
	Src    []byte `json:"src"`
	Exp    []byte `json:"exp"`
	Bad    bool   `json:"bad"`
	Suffix string `json:"suffix"`
}

func c04RolloverCheck(c c04RolloverCase) error {
	in := []byte(c.Prefix + `"` + string(c.Src) + `"` + c.Suffix)
	v, model := rj.Classify(in)
	if v == rj.Either {
		return nil
	}
	if c.Bad != (v == rj.MustReject) {
		return bugf("constructive expectation (bad=%v) disagrees with the reference parser (%v)", c.Bad, v)
	}
	var want [][]byte
	if !c.Bad {
		for _, e := range model.A {
			if e.K == rj.Str {
				want = append(want, e.S)
			}
		}
	}
	for _, cfg := range parseCfgs() {
		pj, err := parseWith(cfg, append([]byte(nil), in...), false)
		if c.Bad {
			if err == nil {
				return fmt.Errorf("[%s] malformed string accepted near an index-buffer rollover: prefix of %d bytes, source %q", cfg, len(c.Prefix), c.Src)
			}
			continue
		}
		if err != nil {
			return fmt.Errorf("[%s] valid document rejected (%v): string %q starts at offset %d after %d bytes of dense tokens (index-buffer rollover)", cfg, err, c.Src, len(c.Prefix), len(c.Prefix))
		}
		got, err := stringsInOrder(pj)
		if err != nil {
			return fmt.Errorf("[%s] %v", cfg, err)
		}
		if len(got) != len(want) {
			return fmt.Errorf("[%s] %d strings on the tape, want %d", cfg, len(got), len(want))
		}
		for i := range want {
			if !bytes.Equal(got[i], want[i]) {
				return fmt.Errorf("[%s] string %d decoded as %q, want %q (string under test %q at offset %d)", cfg, i, clip(got[i]), clip(want[i]), c.Src, len(c.Prefix))
			}
		}
	}
	return nil
}

var c04RolloverRun = register("C04", "rollover", c04RolloverCheck)
