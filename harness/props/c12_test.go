package props

import (
	"bytes"
	"encoding/json"
	"errors"
	"fmt"
	"math"
	"sort"
	"strconv"
	"strings"
	"testing"

	simdjson "github.com/minio/simdjson-go"
	"pgregory.net/rapid"

	rj "verifharness/internal/refjson"
)

// C12: lookup, filtered iteration and bulk accessors agree with plain traversal.

type c12Stats struct {
	queries, nontrivial int
	classes             map[string]int
}

func (s *c12Stats) q(class string, nt bool) {
	s.queries++
	if nt {
		s.nontrivial++
	}
	if s.classes == nil {
		s.classes = map[string]int{}
	}
	s.classes[class]++
}

// ---- numeric conversion model ----

const two63 = 9223372036854775808.0
const two64 = 18446744073709551616.0

// wantInt: (value, ok, judged). judged=false: the property leaves the case open.
func wantInt(n *rj.Node) (int64, bool, bool) {
	switch n.NT {
	case 'i':
		return int64(n.NBits), true, true
	case 'u':
		if n.NBits > math.MaxInt64 {
			return 0, false, true
		}
		return int64(n.NBits), true, true
	default:
		f := math.Float64frombits(n.NBits)
		if math.IsNaN(f) {
			return 0, false, false
		}
		if f >= -two63 && f < two63 {
			return int64(f), true, true
		}
		return 0, false, true
	}
}

func wantUint(n *rj.Node) (uint64, bool, bool) {
	switch n.NT {
	case 'i':
		if int64(n.NBits) < 0 {
			return 0, false, true
		}
		return n.NBits, true, true
	case 'u':
		return n.NBits, true, true
	default:
		f := math.Float64frombits(n.NBits)
		if math.IsNaN(f) {
			return 0, false, false
		}
		if f > -1 && f < 0 {
			return 0, false, false // truncates to 0 or is "negative": left open
		}
		if f == 0 && math.Signbit(f) {
			return 0, true, false
		}
		if f >= 0 && f < two64 {
			return uint64(f), true, true
		}
		return 0, false, true
	}
}

func wantFloat(n *rj.Node) float64 {
	switch n.NT {
	case 'i':
		return float64(int64(n.NBits))
	case 'u':
		return float64(n.NBits)
	}
	return math.Float64frombits(n.NBits)
}

func nearBoundary(n *rj.Node) bool {
	f := wantFloat(n)
	for _, b := range []float64{two63, -two63, two64, 0} {
		if b == 0 {
			if f > -1 && f < 1 && f != 0 {
				return true
			}
			continue
		}
		if math.Abs(f-b) <= math.Abs(b)*1e-15*4 {
			return true
		}
	}
	return false
}

func wantStringCvt(n *rj.Node) (string, bool) {
	switch n.K {
	case rj.Null:
		return "null", true
	case rj.Bool:
		if n.B {
			return "true", true
		}
		return "false", true
	case rj.Str:
		return string(n.S), true
	case rj.Num:
		switch n.NT {
		case 'i':
			return strconv.FormatInt(int64(n.NBits), 10), true
		case 'u':
			return strconv.FormatUint(n.NBits, 10), true
		default:
			b, err := json.Marshal(math.Float64frombits(n.NBits))
			if err != nil {
				return "", false
			}
			return string(b), true
		}
	}
	return "", false
}

// ---- the battery ----

func c12Check(c docCase) error {
	_, err := c12Battery(c)
	return err
}

var (
	c12ReuseEls *simdjson.Elements
	c12PrevKeys []string
	c12Filter   map[string]struct{}
)

func c12Battery(c docCase) (c12Stats, error) {
	var st c12Stats
	c12ReuseEls, c12PrevKeys, c12Filter = nil, nil, nil
	model, err := modelOf(c.In)
	if err != nil {
		return st, err
	}
	roots := []*rj.Node{model}
	pj, err := simdjson.Parse(append([]byte(nil), c.In...), nil)
	if err != nil {
		return st, fmt.Errorf("valid document rejected: %v", err)
	}
	objs, arrs := 0, 0
	var rec func(n *rj.Node, path []int) error
	rec = func(n *rj.Node, path []int) error {
		switch n.K {
		case rj.Obj:
			objs++
			if objs <= 25 {
				if err := c12Object(pj, roots, n, path, &st); err != nil {
					return err
				}
			}
			for i, m := range n.O {
				if err := rec(m.Val, append(append([]int(nil), path...), i)); err != nil {
					return err
				}
			}
		case rj.Arr:
			arrs++
			if arrs <= 25 {
				if err := c12Array(pj, roots, n, path, &st); err != nil {
					return err
				}
			}
			for i, x := range n.A {
				if err := rec(x, append(append([]int(nil), path...), i)); err != nil {
					return err
				}
			}
		}
		return nil
	}
	if err := rec(model, []int{0}); err != nil {
		return st, fmt.Errorf("%v\ndocument: %q", err, clip(c.In))
	}
	// FindElement from the tape / root / ForEach iterators
	if err := c12FindElement(pj, model, &st); err != nil {
		return st, fmt.Errorf("%v\ndocument: %q", err, clip(c.In))
	}
	if err := c12HeldResults(pj, model); err != nil {
		return st, fmt.Errorf("%v\ndocument: %q", err, clip(c.In))
	}
	return st, nil
}

// c12HeldResults: what Interface/Map/Parse handed out are Go values (maps with string keys, strings, Element names).
// They are the values plain traversal gave at that moment and, being Go strings, cannot change afterwards - also not
// when the ParsedJson they came from is recycled as the reuse argument of a later Parse or edited in place.
func c12HeldResults(pj *simdjson.ParsedJson, model *rj.Node) error {
	it := pj.Iter()
	held, err := it.Interface()
	if err != nil {
		return fmt.Errorf("Interface(): %v", err)
	}
	want := canonIface(nil, held)
	var names []string   // as handed out
	var namesCp [][]byte // private copies taken at once
	var mp map[string]interface{}
	if model.K == rj.Obj {
		ri := pj.Iter()
		ri.Advance()
		_, r, err := ri.Root(nil)
		if err != nil {
			return fmt.Errorf("Root(): %v", err)
		}
		o, err := r.Object(nil)
		if err != nil {
			return fmt.Errorf("Object(): %v", err)
		}
		o2 := *o
		els, err := o.Parse(nil)
		if err != nil {
			return fmt.Errorf("Object.Parse: %v", err)
		}
		for _, e := range els.Elements {
			names = append(names, e.Name)
			namesCp = append(namesCp, []byte(e.Name))
		}
		for k := range els.Index {
			names = append(names, k)
			namesCp = append(namesCp, []byte(k))
		}
		if mp, err = o2.Map(nil); err != nil {
			return fmt.Errorf("Object.Map: %v", err)
		}
	}
	wantMap := canonIface(nil, mp)
	// recycle the object: first edit it in place (appends to its string buffer), then parse something else into it
	ei := pj.Iter()
	for n := 0; n < 200; n++ {
		t := ei.AdvanceInto()
		if t == simdjson.TagEnd {
			break
		}
		if t == simdjson.TagString {
			cp := ei
			if cp.PeekNextTag() != simdjson.TagEnd { // a value or key; replacing either is fine for this purpose
				_ = cp.SetString("REPLACED-IN-PLACE")
			}
			break
		}
	}
	other := []byte(`{"ZZZZZZZZZZZZZZZZ":"YYYYYYYYYYYYYYYYYYYYYYYYYYYYYYYY","XXXXXXXXXXXXXXXXXXXXXXXX\n":["WWWWWWWWWWWWWWWWWWWWWWWWWWWWWWWWWWWWWWWWWWWWWWWWWWWWWWWWWWWWWWWWWWWWWWWWWWWWWWWW\t",1,2,3]}`)
	if _, err := simdjson.Parse(other, pj); err != nil {
		return bugf("recycling parse failed: %v", err)
	}
	if got := canonIface(nil, held); !bytes.Equal(got, want) {
		return fmt.Errorf("the value returned by Interface() changed after its ParsedJson was recycled by a later Parse: %s", diffCanon(want, got))
	}
	if got := canonIface(nil, mp); !bytes.Equal(got, wantMap) {
		return fmt.Errorf("the map returned by Object.Map changed after its ParsedJson was recycled by a later Parse: %s", diffCanon(wantMap, got))
	}
	for i := range names {
		if names[i] != string(namesCp[i]) {
			return fmt.Errorf("member name %q handed out by Object.Parse reads %q after its ParsedJson was recycled by a later Parse", namesCp[i], names[i])
		}
	}
	return nil
}

func firstMember(n *rj.Node, key string) (int, *rj.Node) {
	for i, m := range n.O {
		if string(m.Key) == key {
			return i, m.Val
		}
	}
	return -1, nil
}

func candidateKeys(n *rj.Node) []string {
	seen := map[string]bool{}
	var ks []string
	add := func(k string) {
		if !seen[k] {
			seen[k] = true
			ks = append(ks, k)
		}
	}
	for _, m := range n.O {
		add(string(m.Key))
	}
	present := append([]string(nil), ks...)
	for _, k := range present {
		add(k + "x")
		if len(k) > 0 {
			add(k[:len(k)-1])
			// same length, different content
			b := []byte(k)
			b[len(b)-1] ^= 1
			add(string(b))
		}
	}
	add("")
	add("zz")
	return ks
}

// expectPath follows first matches; returns (node, notFound, otherErr).
func expectPath(n *rj.Node, path []string) (*rj.Node, bool, bool) {
	cur := n
	for i, k := range path {
		if cur.K != rj.Obj {
			return nil, false, true
		}
		_, v := firstMember(cur, k)
		if v == nil {
			return nil, true, false
		}
		if i == len(path)-1 {
			return v, false, false
		}
		if v.K != rj.Obj {
			return nil, false, true
		}
		cur = v
	}
	return nil, true, false
}

// keyPaths enumerates key paths from n (present keys, depth <= 4) plus broken variants.
func keyPaths(n *rj.Node, limit int) [][]string {
	var out [][]string
	var rec func(cur *rj.Node, prefix []string, depth int)
	rec = func(cur *rj.Node, prefix []string, depth int) {
		if cur.K != rj.Obj || depth > 4 || len(out) > limit {
			return
		}
		seen := map[string]bool{}
		for _, m := range cur.O {
			if seen[string(m.Key)] {
				continue
			}
			seen[string(m.Key)] = true
			p := append(append([]string(nil), prefix...), string(m.Key))
			out = append(out, p)
			// absent key after this prefix, and a path that runs through this value
			out = append(out, append(append([]string(nil), prefix...), string(m.Key)+"~absent"))
			out = append(out, append(append([]string(nil), p...), "deeper"))
			_, first := firstMember(cur, string(m.Key))
			rec(first, p, depth+1)
		}
	}
	rec(n, nil, 1)
	if len(out) > limit {
		out = out[:limit]
	}
	return out
}

func c12Object(pj *simdjson.ParsedJson, roots []*rj.Node, n *rj.Node, path []int, st *c12Stats) error {
	it, err := locate(pj, roots, path, 1)
	if err != nil {
		return err
	}
	obj, err := it.Object(nil)
	if err != nil {
		return fmt.Errorf("Object() at %v: %v", path, err)
	}
	many := len(n.O) >= 2
	// FindKey: every key on a fresh copy of the Object value, then all of them again (last to first, and each one
	// twice) on ONE Object value, so that the answer may not depend on what was looked up before.
	cands := candidateKeys(n)
	lookups := append([]string(nil), cands...)
	for i := len(cands) - 1; i >= 0; i-- {
		lookups = append(lookups, cands[i], cands[i])
	}
	shared := *obj
	for li, k := range lookups {
		idx, want := firstMember(n, k)
		o := *obj
		op := &o
		if li >= len(cands) {
			op = &shared
		}
		var dst simdjson.Element
		el := op.FindKey(k, &dst)
		st.q("FindKey", many && idx != 0)
		if want == nil {
			if el != nil {
				return fmt.Errorf("FindKey(%q) at %v returned element %q of type %v, but no member has that key", k, path, el.Name, el.Type)
			}
			continue
		}
		if el == nil {
			return fmt.Errorf("FindKey(%q) at %v returned nil, but member %d has that key", k, path, idx)
		}
		if el.Name != k {
			return fmt.Errorf("FindKey(%q) at %v returned an element named %q", k, path, el.Name)
		}
		if err := elementMatches(el, want, fmt.Sprintf("FindKey(%q) at %v (first member with that key is #%d)", k, path, idx)); err != nil {
			return err
		}
	}
	// FindPath
	for pi, kp := range keyPaths(n, 60) {
		want, notFound, other := expectPath(n, kp)
		o := *obj
		op := &o
		if pi%2 == 1 {
			op = &shared // the Object value that has served all the FindKey calls above
		}
		el, err := op.FindPath(nil, kp...)
		st.q("FindPath", len(kp) >= 2 || (many && want != nil))
		switch {
		case notFound:
			if !errors.Is(err, simdjson.ErrPathNotFound) {
				return fmt.Errorf("FindPath(%q) at %v: want ErrPathNotFound, got element=%v err=%v", kp, path, el != nil && err == nil, err)
			}
		case other:
			if err == nil || errors.Is(err, simdjson.ErrPathNotFound) {
				return fmt.Errorf("FindPath(%q) at %v runs through a non-object: want an error other than ErrPathNotFound, got %v", kp, path, err)
			}
		default:
			if err != nil {
				return fmt.Errorf("FindPath(%q) at %v: %v", kp, path, err)
			}
			if el.Name != kp[len(kp)-1] {
				return fmt.Errorf("FindPath(%q) at %v returned an element named %q", kp, path, el.Name)
			}
			if err := elementMatches(el, want, fmt.Sprintf("FindPath(%q) at %v", kp, path)); err != nil {
				return err
			}
		}
		// Iter.FindElement from the iterator positioned on the object gives the same answer
		it2, err2 := locate(pj, roots, path, 1)
		if err2 != nil {
			return err2
		}
		el2, err := it2.FindElement(nil, kp...)
		st.q("FindElement", len(kp) >= 2)
		switch {
		case notFound:
			if !errors.Is(err, simdjson.ErrPathNotFound) {
				return fmt.Errorf("FindElement(%q) at %v: want ErrPathNotFound, got %v", kp, path, err)
			}
		case other:
			if err == nil || errors.Is(err, simdjson.ErrPathNotFound) {
				return fmt.Errorf("FindElement(%q) at %v runs through a non-object: want another error, got %v", kp, path, err)
			}
		default:
			if err != nil {
				return fmt.Errorf("FindElement(%q) at %v: %v", kp, path, err)
			}
			if err := elementMatches(el2, want, fmt.Sprintf("FindElement(%q) at %v", kp, path)); err != nil {
				return err
			}
		}
	}
	{
		o := *obj
		if _, err := o.FindPath(nil); !errors.Is(err, simdjson.ErrPathNotFound) {
			return fmt.Errorf("FindPath() with an empty path at %v: want ErrPathNotFound, got %v", path, err)
		}
	}
	// ForEach with a key filter (unique keys only: the property's precondition)
	if uniqueKeys(n) {
		var keys []string
		for _, m := range n.O {
			keys = append(keys, string(m.Key))
		}
		pool := append(append([]string(nil), keys...), "absent-1")
		nsub := 1 << uint(len(pool))
		step := 1
		if len(pool) > 5 {
			nsub = 40
			step = 0
		}
		for s := 1; s < nsub; s++ {
			mask := s
			if step == 0 {
				// deterministic spread of subsets for larger objects
				mask = int((uint64(s)*0x9e3779b97f4a7c15)>>20) % (1 << uint(len(pool)))
				if mask == 0 {
					mask = 1
				}
			}
			// one filter map per case, emptied and refilled for every query, the way a caller keeps a scratch map: the
			// filter is whatever the map holds when ForEach is called, not what the same map held earlier
			if c12Filter == nil {
				c12Filter = map[string]struct{}{}
			}
			filter := c12Filter
			for k := range filter {
				delete(filter, k)
			}
			for i, k := range pool {
				if mask&(1<<uint(i)) != 0 {
					filter[k] = struct{}{}
				}
			}
			var want []string
			for _, m := range n.O {
				if _, ok := filter[string(m.Key)]; ok {
					want = append(want, string(m.Key)+"="+string(canonNode(nil, m.Val, canonOpts{})))
				}
			}
			var got []string
			var cbErr error
			o := *obj
			err := o.ForEach(func(key []byte, i simdjson.Iter) {
				v, e := w4Value(nil, &i, i.Type())
				if e != nil && cbErr == nil {
					cbErr = e
				}
				got = append(got, string(key)+"="+string(v))
			}, filter)
			st.q("ForEach-filter", len(n.O) >= 2)
			if err != nil {
				return fmt.Errorf("ForEach with filter %v at %v: %v", sortedKeys(filter), path, err)
			}
			if cbErr != nil {
				return fmt.Errorf("ForEach with filter %v at %v: reading a value in the callback: %v", sortedKeys(filter), path, cbErr)
			}
			if strings.Join(got, "|") != strings.Join(want, "|") {
				return fmt.Errorf("ForEach with filter %v at %v called back %q; the members with those keys are %q", sortedKeys(filter), path, got, want)
			}
		}
	}
	// Parse / Lookup / Map; the Elements destination is the one the previously examined object was parsed into
	{
		o := *obj
		els, err := o.Parse(c12ReuseEls)
		c12ReuseEls = els
		st.q("Parse", many)
		if err == nil {
			for _, k := range c12PrevKeys {
				_, want := firstMember(n, k)
				if el := els.Lookup(k); want == nil && el != nil {
					return fmt.Errorf("Elements.Lookup(%q) at %v returned %q, a key of the object previously parsed into the same Elements; this object has no such member", k, path, el.Name)
				}
			}
			c12PrevKeys = c12PrevKeys[:0]
			for _, m := range n.O {
				c12PrevKeys = append(c12PrevKeys, string(m.Key))
			}
		}
		if err != nil {
			return fmt.Errorf("Object.Parse at %v: %v", path, err)
		}
		if len(els.Elements) != len(n.O) {
			return fmt.Errorf("Object.Parse at %v lists %d members, want %d", path, len(els.Elements), len(n.O))
		}
		for i, m := range n.O {
			e := els.Elements[i]
			if e.Name != string(m.Key) {
				return fmt.Errorf("Object.Parse at %v: member %d named %q, want %q", path, i, e.Name, m.Key)
			}
			if err := elementMatches(&e, m.Val, fmt.Sprintf("Object.Parse member %d at %v", i, path)); err != nil {
				return err
			}
		}
		for _, k := range candidateKeys(n) {
			_, want := firstMember(n, k)
			el := els.Lookup(k)
			st.q("Lookup", many)
			if want == nil {
				if el != nil {
					return fmt.Errorf("Elements.Lookup(%q) at %v returned %q, but no member has that key", k, path, el.Name)
				}
				continue
			}
			if el == nil || el.Name != k {
				return fmt.Errorf("Elements.Lookup(%q) at %v returned %v", k, path, el)
			}
			// duplicates: any member with that key is accepted
			ok := false
			var lastErr error
			for _, m := range n.O {
				if string(m.Key) == k {
					if lastErr = elementMatches(el, m.Val, "Lookup"); lastErr == nil {
						ok = true
						break
					}
				}
			}
			if !ok {
				return fmt.Errorf("Elements.Lookup(%q) at %v returned a value that no member with that key has: %v", k, path, lastErr)
			}
		}
		o2 := *obj
		mp, err := o2.Map(nil)
		st.q("Map", many)
		if err != nil {
			return fmt.Errorf("Object.Map at %v: %v", path, err)
		}
		want := canonNode(nil, n, canonOpts{noFlags: true, mapMode: true})
		got := canonIface(nil, mp)
		if !bytes.Equal(want, got) {
			return fmt.Errorf("Object.Map at %v: %s", path, diffCanon(want, got))
		}
	}
	return nil
}

func sortedKeys(m map[string]struct{}) []string {
	var ks []string
	for k := range m {
		ks = append(ks, k)
	}
	sort.Strings(ks)
	return ks
}

func c12Array(pj *simdjson.ParsedJson, roots []*rj.Node, n *rj.Node, path []int, st *c12Stats) error {
	it, err := locate(pj, roots, path, 1)
	if err != nil {
		return err
	}
	arr, err := it.Array(nil)
	if err != nil {
		return fmt.Errorf("Array() at %v: %v", path, err)
	}
	boundary := false
	allNum := true
	for _, e := range n.A {
		if e.K != rj.Num {
			allNum = false
		} else if nearBoundary(e) {
			boundary = true
		}
	}
	nt := len(n.A) >= 2 || boundary
	where := func(api string) string {
		return fmt.Sprintf("%s at %v (array %s)", api, path, clip(canonNode(nil, n, canonOpts{})))
	}
	// AsFloat
	{
		a := *arr
		got, err := a.AsFloat()
		st.q("AsFloat", nt)
		if allNum {
			if err != nil {
				return fmt.Errorf("%s: %v", where("AsFloat"), err)
			}
			if len(got) != len(n.A) {
				return fmt.Errorf("%s returned %d values, want %d", where("AsFloat"), len(got), len(n.A))
			}
			for i, e := range n.A {
				if math.Float64bits(got[i]) != math.Float64bits(wantFloat(e)) {
					return fmt.Errorf("%s: element %d = %v, plain traversal gives %v", where("AsFloat"), i, got[i], wantFloat(e))
				}
			}
		} else if err == nil {
			return fmt.Errorf("%s succeeded although an element is not a number", where("AsFloat"))
		}
	}
	// AsInteger
	{
		a := *arr
		got, err := a.AsInteger()
		st.q("AsInteger", nt)
		wantErr, judged := !allNum, true
		var want []int64
		if allNum {
			for _, e := range n.A {
				v, ok, j := wantInt(e)
				if !j {
					judged = false
				}
				if !ok {
					wantErr = true
				}
				want = append(want, v)
			}
		}
		if judged {
			if wantErr && err == nil {
				return fmt.Errorf("%s succeeded with %v although an element is not convertible to int64", where("AsInteger"), got)
			}
			if !wantErr {
				if err != nil {
					return fmt.Errorf("%s: %v (every element is within int64 range)", where("AsInteger"), err)
				}
				if fmt.Sprint(got) != fmt.Sprint(want) {
					return fmt.Errorf("%s = %v, plain traversal gives %v", where("AsInteger"), got, want)
				}
			}
		}
	}
	// AsUint64
	{
		a := *arr
		got, err := a.AsUint64()
		st.q("AsUint64", nt)
		wantErr, judged := !allNum, true
		var want []uint64
		if allNum {
			for _, e := range n.A {
				v, ok, j := wantUint(e)
				if !j {
					judged = false
				}
				if !ok {
					wantErr = true
				}
				want = append(want, v)
			}
		}
		if judged {
			if wantErr && err == nil {
				return fmt.Errorf("%s succeeded with %v although an element is not convertible to uint64", where("AsUint64"), got)
			}
			if !wantErr {
				if err != nil {
					return fmt.Errorf("%s: %v (every element is within uint64 range)", where("AsUint64"), err)
				}
				if fmt.Sprint(got) != fmt.Sprint(want) {
					return fmt.Errorf("%s = %v, plain traversal gives %v", where("AsUint64"), got, want)
				}
			}
		}
	}
	// AsString / AsStringCvt
	{
		allStr, allScalar := true, true
		var wantS, wantC []string
		for _, e := range n.A {
			if e.K != rj.Str {
				allStr = false
			} else {
				wantS = append(wantS, string(e.S))
			}
			if s, ok := wantStringCvt(e); ok {
				wantC = append(wantC, s)
			} else {
				allScalar = false
			}
		}
		a := *arr
		got, err := a.AsString()
		st.q("AsString", nt)
		if allStr {
			if err != nil || strings.Join(got, "\x00") != strings.Join(wantS, "\x00") || len(got) != len(wantS) {
				return fmt.Errorf("%s = %q, %v; want %q", where("AsString"), got, err, wantS)
			}
		} else if err == nil {
			return fmt.Errorf("%s succeeded although an element is not a string", where("AsString"))
		}
		a2 := *arr
		gotC, err := a2.AsStringCvt()
		st.q("AsStringCvt", nt)
		if allScalar {
			if err != nil || strings.Join(gotC, "\x00") != strings.Join(wantC, "\x00") || len(gotC) != len(wantC) {
				return fmt.Errorf("%s = %q, %v; want %q", where("AsStringCvt"), gotC, err, wantC)
			}
		} else if err == nil {
			return fmt.Errorf("%s succeeded although an element is a container", where("AsStringCvt"))
		}
	}
	// Interface
	{
		a := *arr
		got, err := a.Interface()
		st.q("Array.Interface", nt)
		if err != nil {
			return fmt.Errorf("%s: %v", where("Array.Interface"), err)
		}
		want := canonNode(nil, n, canonOpts{noFlags: true, mapMode: true})
		g := canonIface(nil, got)
		if !bytes.Equal(want, g) {
			return fmt.Errorf("%s: %s", where("Array.Interface"), diffCanon(want, g))
		}
	}
	// per-element numeric accessors
	ai := arr.Iter()
	for i, e := range n.A {
		t := ai.Advance()
		if t == simdjson.TypeNone {
			return fmt.Errorf("array iterator at %v ended at element %d of %d", path, i, len(n.A))
		}
		if e.K != rj.Num {
			continue
		}
		nb := nearBoundary(e)
		desc := fmt.Sprintf("element %d (%s %s) of the array at %v", i, typeName(e), showNum(e.NT, e.NBits), path)
		if v, ok, judged := wantInt(e); judged {
			got, err := ai.Int()
			st.q("Iter.Int", nb)
			if ok && (err != nil || got != v) {
				return fmt.Errorf("Int() on %s = %d, %v; want %d", desc, got, err, v)
			}
			if !ok && err == nil {
				return fmt.Errorf("Int() on %s = %d without error; the value is outside int64", desc, got)
			}
		}
		if v, ok, judged := wantUint(e); judged {
			got, err := ai.Uint()
			st.q("Iter.Uint", nb)
			if ok && (err != nil || got != v) {
				return fmt.Errorf("Uint() on %s = %d, %v; want %d", desc, got, err, v)
			}
			if !ok && err == nil {
				return fmt.Errorf("Uint() on %s = %d without error; the value is outside uint64", desc, got)
			}
		}
		got, err := ai.Float()
		st.q("Iter.Float", nb)
		if err != nil || math.Float64bits(got) != math.Float64bits(wantFloat(e)) {
			return fmt.Errorf("Float() on %s = %v, %v; want %v", desc, got, err, wantFloat(e))
		}
		if s, ok := wantStringCvt(e); ok {
			gs, err := ai.StringCvt()
			if err != nil || gs != s {
				return fmt.Errorf("StringCvt() on %s = %q, %v; want %q", desc, gs, err, s)
			}
		}
	}
	if t := ai.Advance(); t != simdjson.TypeNone {
		return fmt.Errorf("array iterator at %v yields more than the %d elements", path, len(n.A))
	}
	return nil
}

func c12FindElement(pj *simdjson.ParsedJson, model *rj.Node, st *c12Stats) error {
	paths := [][]string{{"a"}, {"zz"}, {""}, {"a", "b"}}
	if model.K == rj.Obj {
		paths = append(paths, keyPaths(model, 20)...)
	}
	for _, kp := range paths {
		var want *rj.Node
		notFound, other := false, false
		if model.K == rj.Obj {
			want, notFound, other = expectPath(model, kp)
		} else {
			other = true // the root holds an array: "type found before object was found"
		}
		check := func(what string, el *simdjson.Element, err error) error {
			st.q("FindElement-root", len(kp) >= 2)
			switch {
			case notFound:
				if !errors.Is(err, simdjson.ErrPathNotFound) {
					return fmt.Errorf("%s FindElement(%q): want ErrPathNotFound, got %v", what, kp, err)
				}
			case other:
				if err == nil || errors.Is(err, simdjson.ErrPathNotFound) {
					return fmt.Errorf("%s FindElement(%q): the path runs through a non-object, want another error, got %v", what, kp, err)
				}
			default:
				if err != nil {
					return fmt.Errorf("%s FindElement(%q): %v", what, kp, err)
				}
				return elementMatches(el, want, fmt.Sprintf("%s FindElement(%q)", what, kp))
			}
			return nil
		}
		// fresh tape iterator (nothing queued yet), after Advance (root queued), and the ForEach iterator
		it := pj.Iter()
		el, err := it.FindElement(nil, kp...)
		if e := check("fresh iterator", el, err); e != nil {
			return e
		}
		it = pj.Iter()
		it.Advance()
		el, err = it.FindElement(nil, kp...)
		if e := check("iterator on the root tag", el, err); e != nil {
			return e
		}
		var ferr error
		pj.ForEach(func(i simdjson.Iter) error {
			el, err := i.FindElement(nil, kp...)
			ferr = check("ParsedJson.ForEach iterator", el, err)
			return nil
		})
		if ferr != nil {
			return ferr
		}
	}
	if _, err := func() (*simdjson.Element, error) { it := pj.Iter(); return it.FindElement(nil) }(); !errors.Is(err, simdjson.ErrPathNotFound) {
		return fmt.Errorf("FindElement with an empty path: want ErrPathNotFound, got %v", err)
	}
	return nil
}

var c12Run = register("C12", "doc", c12Check)

// boundary-heavy number literals for bulk accessors
var c12Numbers = []string{
	"0", "1", "-1", "255", "-0.0", "0.5", "-0.5", "-0.999", "0.999", "1.5", "-1.5", "1e300", "-1e300", "1e19", "1e20", "-1e19",
	"9223372036854775807", "9223372036854775808", "9223372036854775806", "-9223372036854775808", "-9223372036854775809", "-9223372036854775807",
	"9223372036854775807.0", "9223372036854775808.0", "9223372036854774784.0", "9223372036854776832.0", "-9223372036854775808.0", "-9223372036854777856.0", "-9223372036854774784.0",
	"18446744073709551615", "18446744073709551616", "18446744073709551614", "18446744073709551615.0", "18446744073709551616.0", "18446744073709549568.0", "18446744073709555712.0",
	"4294967296", "4294967295.5", "9007199254740993", "1e-400", "123456789012345678901234567890",
}

func genC12Doc(t *rapid.T) ([]byte, string) {
	switch rapid.IntRange(0, 5).Draw(t, "c12kind") {
	case 0, 1: // numeric arrays (homogeneous or mixed) inside an object
		n := rapid.IntRange(0, 6).Draw(t, "n")
		var parts []string
		for i := 0; i < n; i++ {
			if rapid.IntRange(0, 9).Draw(t, "mixed") == 0 {
				parts = append(parts, []string{`"s"`, `null`, `true`, `[]`, `{}`, `""`}[rapid.IntRange(0, 5).Draw(t, "other")])
			} else {
				parts = append(parts, c12Numbers[rapid.IntRange(0, len(c12Numbers)-1).Draw(t, "num")])
			}
		}
		return []byte(`{"n":[` + strings.Join(parts, ",") + `],"s":["a","","b\n"],"m":[1,"x",null,false,2.5]}`), "numeric-arrays"
	case 2:
		d := genDoc(t, profUniq)
		return renderCompact(d), "unique-keys"
	case 3:
		d := genDoc(t, profKeys)
		return renderCompact(d), "colliding-keys"
	case 4: // nested objects for key paths
		depth := rapid.IntRange(1, 4).Draw(t, "depth")
		var b strings.Builder
		for i := 0; i < depth; i++ {
			b.WriteString(`{"x":` + strconv.Itoa(i) + `,"` + keyAlphabet[rapid.IntRange(0, 5).Draw(t, "k")] + `":`)
		}
		b.WriteString([]string{`1`, `"v"`, `[1,2]`, `{}`, `{"a":{"b":null}}`}[rapid.IntRange(0, 4).Draw(t, "leaf")])
		for i := 0; i < depth; i++ {
			b.WriteString(`,"a":{"b":` + strconv.Itoa(i) + `},"aa":[{"a":1}]}`)
		}
		return []byte(b.String()), "nested-paths"
	default:
		d := genDoc(t, pickProfile(t))
		text, _ := render(d, genLayout(t, false))
		return text, "any"
	}
}

func TestC12_Queries(t *testing.T) {
	runRapid(t, "C12_Queries", nCases(200_000, 4_000_000), func(t *rapid.T) {
		in, kind := genC12Doc(t)
		c := docCase{In: in}
		c12Run(t, c)
		st, _ := c12Battery(c)
		cl := col("C12")
		cl.Eval(st.nontrivial > 0, evidHash(in), "gen:"+kind)
		for k, v := range st.classes {
			cl.Class("queries:"+k, int64(v))
		}
		cl.Class("queries:total", int64(st.queries))
		cl.Class("queries:nontrivial", int64(st.nontrivial))
		cl.Sample(func() interface{} {
			return map[string]interface{}{"doc": clip(in), "gen": kind, "queries_run": st.queries, "queries_nontrivial": st.nontrivial}
		})
	})
	col("C12").Completed("TestC12_Queries")
}
