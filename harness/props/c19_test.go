package props

import (
	"bytes"
	"encoding/binary"
	"errors"
	"fmt"
	"io"
	"testing"

	"github.com/klauspost/compress/s2"
	"github.com/klauspost/compress/zstd"
	simdjson "github.com/minio/simdjson-go"
	"pgregory.net/rapid"
)

// C19: Deserialize never panics on corrupt or truncated bytes.

type blobCase struct {
	Blob []byte `json:"blob"`
	Mode int    `json:"mode"` // compress mode of the deserializing Serializer (irrelevant to the format, varied anyway)
	// Orig (optional): the valid blob the mutant was made from. The mutant is then also deserialized into the
	// destination (and with the Serializer) that has just deserialized Orig, the way a caller recycles its objects.
	Orig []byte `json:"orig,omitempty"`
}

const sectionLimit = 4 << 20 // the property's "small enough to allocate"

// ---- independent framing walker (written from the format comment in the source/README) ----

type blobBlock struct {
	present bool
	typ     byte
	data    []byte
}

type blobFrame struct {
	version                                              byte
	compSize                                             uint64
	tapeSize, stringsSize, msgSize, tagsSize, valuesSize uint64
	strs, msg, tags, vals                                blobBlock
}

var errTooLarge = errors.New("declared section too large")

func readBlock(r *bytes.Reader, dstLen uint64) (blobBlock, error) {
	size, err := binary.ReadUvarint(r)
	if err != nil {
		return blobBlock{}, err
	}
	if size > uint64(r.Len()) {
		return blobBlock{}, errors.New("block beyond input")
	}
	if size == 0 && dstLen == 0 {
		return blobBlock{}, nil
	}
	if size < 1 {
		return blobBlock{}, errors.New("block too small")
	}
	typ, _ := r.ReadByte()
	data := make([]byte, size-1)
	io.ReadFull(r, data)
	return blobBlock{present: true, typ: typ, data: data}, nil
}

// walkFrame parses the framing. tooLarge is set as soon as a declared size beyond the limit has been read
// (the precondition of the property), even if the framing is broken further on.
func walkFrame(b []byte) (f blobFrame, tooLarge bool, err error) {
	r := bytes.NewReader(b)
	if f.version, err = r.ReadByte(); err != nil {
		return
	}
	if f.compSize, err = binary.ReadUvarint(r); err != nil {
		return
	}
	chk := func(v uint64, mul uint64) {
		if v > sectionLimit/mul {
			tooLarge = true
		}
	}
	if f.tapeSize, err = binary.ReadUvarint(r); err != nil {
		return
	}
	chk(f.tapeSize, 8)
	if f.stringsSize, err = binary.ReadUvarint(r); err != nil {
		return
	}
	chk(f.stringsSize, 1)
	if f.strs, err = readBlock(r, f.stringsSize); err != nil {
		return
	}
	if f.msgSize, err = binary.ReadUvarint(r); err != nil {
		return
	}
	chk(f.msgSize, 1)
	if f.msg, err = readBlock(r, f.msgSize); err != nil {
		return
	}
	if f.tagsSize, err = binary.ReadUvarint(r); err != nil {
		return
	}
	chk(f.tagsSize, 1)
	if f.tags, err = readBlock(r, f.tagsSize); err != nil {
		return
	}
	if f.valuesSize, err = binary.ReadUvarint(r); err != nil {
		return
	}
	chk(f.valuesSize, 1)
	if f.vals, err = readBlock(r, f.valuesSize); err != nil {
		return
	}
	return
}

// zstdTooLarge inspects zstd frame headers inside a block: a mutated header can announce gigabytes.
func zstdTooLarge(bl blobBlock) bool {
	if !bl.present || bl.typ != 2 {
		return false
	}
	var h zstd.Header
	if err := h.Decode(bl.data); err != nil {
		return false // the decoder will reject it as well
	}
	if h.HasFCS && h.FrameContentSize > sectionLimit {
		return true
	}
	if h.WindowSize > 8<<20 {
		return true
	}
	return false
}

var zstdDec, _ = zstd.NewReader(nil, zstd.WithDecoderMaxMemory(64<<20))

// decodeBlock returns the raw payload of a block (used by the structure-aware mutator and the non-triviality rule).
func decodeBlock(bl blobBlock, want uint64) ([]byte, error) {
	if !bl.present {
		if want != 0 {
			return nil, errors.New("absent block with non-zero size")
		}
		return nil, nil
	}
	switch bl.typ {
	case 0:
		if uint64(len(bl.data)) != want {
			return nil, errors.New("plain size mismatch")
		}
		return bl.data, nil
	case 1:
		out := make([]byte, want)
		dec := s2.NewReader(bytes.NewReader(bl.data))
		if _, err := io.ReadFull(dec, out); err != nil {
			return nil, err
		}
		return out, nil
	case 2:
		out, err := zstdDec.DecodeAll(bl.data, nil)
		if err != nil {
			return nil, err
		}
		if uint64(len(out)) != want {
			return nil, errors.New("zstd size mismatch")
		}
		return out, nil
	}
	return nil, errors.New("unknown block type")
}

func putUvarint(dst []byte, v uint64) []byte {
	var tmp [10]byte
	n := binary.PutUvarint(tmp[:], v)
	return append(dst, tmp[:n]...)
}

func encodeBlockRaw(dst []byte, raw []byte, typ byte, declared uint64, sizeOverride ...uint64) []byte {
	if len(raw) == 0 && declared == 0 && typ == 0xff {
		return putUvarint(dst, 0)
	}
	var payload []byte
	switch typ {
	case 1:
		var buf bytes.Buffer
		w := s2.NewWriter(&buf)
		w.Write(raw)
		w.Close()
		payload = buf.Bytes()
	case 2:
		enc, _ := zstd.NewWriter(nil, zstd.WithEncoderCRC(false))
		payload = enc.EncodeAll(raw, nil)
		enc.Close()
	default:
		payload = raw
	}
	sz := uint64(len(payload) + 1)
	if len(sizeOverride) > 0 && sizeOverride[0] != 0 {
		sz = sizeOverride[0]
	}
	dst = putUvarint(dst, sz)
	dst = append(dst, typ)
	return append(dst, payload...)
}

// rawBlob is a decoded blob that can be mutated and re-framed.
type rawBlob struct {
	version                    byte
	tapeSize, stringsSize      uint64
	msg, tags, vals            []byte
	msgSize, tagsSize, valSize uint64 // declared
	msgTyp, tagsTyp, valsTyp   byte
	// declared (compressed) block sizes, when non-zero, replace the real ones: [message, tags, values]
	blockSize [3]uint64
	compSize  uint64 // declared size of the whole remainder, when non-zero
	// emptyBlock: the block [message, tags, values] is stored as size 0 (no type byte, no payload) while its declared
	// uncompressed size stays as it is
	emptyBlock [3]bool
}

func decodeBlob(b []byte) (*rawBlob, error) {
	f, _, err := walkFrame(b)
	if err != nil {
		return nil, err
	}
	rb := &rawBlob{version: f.version, tapeSize: f.tapeSize, stringsSize: f.stringsSize, msgSize: f.msgSize, tagsSize: f.tagsSize, valSize: f.valuesSize,
		msgTyp: f.msg.typ, tagsTyp: f.tags.typ, valsTyp: f.vals.typ}
	if rb.msg, err = decodeBlock(f.msg, f.msgSize); err != nil {
		return nil, err
	}
	if rb.tags, err = decodeBlock(f.tags, f.tagsSize); err != nil {
		return nil, err
	}
	if rb.vals, err = decodeBlock(f.vals, f.valuesSize); err != nil {
		return nil, err
	}
	rb.msg = append([]byte(nil), rb.msg...)
	rb.tags = append([]byte(nil), rb.tags...)
	rb.vals = append([]byte(nil), rb.vals...)
	return rb, nil
}

func (rb *rawBlob) encode() []byte {
	var body []byte
	body = putUvarint(body, rb.tapeSize)
	body = putUvarint(body, rb.stringsSize)
	body = putUvarint(body, 0) // strings block: empty
	block := func(k int, raw []byte, typ byte, declared uint64) {
		body = putUvarint(body, declared)
		if rb.emptyBlock[k] {
			body = putUvarint(body, 0)
			return
		}
		body = encodeBlockRaw(body, raw, typ, declared, rb.blockSize[k])
	}
	block(0, rb.msg, rb.msgTyp, rb.msgSize)
	block(1, rb.tags, rb.tagsTyp, rb.tagsSize)
	block(2, rb.vals, rb.valsTyp, rb.valSize)
	out := []byte{rb.version}
	cs := uint64(len(body))
	if rb.compSize != 0 {
		cs = rb.compSize
	}
	out = putUvarint(out, cs)
	return append(out, body...)
}

// reachesRebuild: the non-triviality rule — framing is consistent and all blocks decode, so Deserialize gets to the tape rebuild.
func reachesRebuild(b []byte) bool {
	f, tooLarge, err := walkFrame(b)
	if err != nil || tooLarge || f.version > 3 {
		return false
	}
	if f.compSize > uint64(len(b)) {
		return false
	}
	if _, err := decodeBlock(f.strs, f.stringsSize); err != nil {
		return false
	}
	if _, err := decodeBlock(f.msg, f.msgSize); err != nil {
		return false
	}
	if _, err := decodeBlock(f.tags, f.tagsSize); err != nil {
		return false
	}
	if _, err := decodeBlock(f.vals, f.valuesSize); err != nil {
		return false
	}
	return true
}

func c19Precondition(b []byte) (ok bool, why string) {
	f, tooLarge, _ := walkFrame(b)
	if tooLarge {
		return false, "declared section > 4 MiB"
	}
	if zstdTooLarge(f.strs) || zstdTooLarge(f.msg) || zstdTooLarge(f.tags) || zstdTooLarge(f.vals) {
		return false, "zstd frame header announces > 4 MiB content or > 8 MiB window"
	}
	return true, ""
}

func c19Check(c blobCase) error {
	if ok, _ := c19Precondition(c.Blob); !ok {
		return nil
	}
	crumb("C19", "blob", c)
	defer clearCrumb()
	stop := watchdog(hangLimit(), "C19 case")
	defer stop()
	base := goroutineBaseline()
	s := simdjson.NewSerializer()
	s.CompressMode(simdjson.CompressMode(c.Mode % 4))
	var pj *simdjson.ParsedJson
	var err error
	perr := noPanic("Deserialize", func() {
		pj, err = s.Deserialize(append([]byte(nil), c.Blob...), nil)
	})
	if perr != nil {
		return fmt.Errorf("%v\nblob (%d bytes): %x", perr, len(c.Blob), clipB(c.Blob))
	}
	if err != nil && len(c.Blob) <= 1<<16 {
		// a rejected blob costs microseconds: the same call 20 more times, on this Serializer and on fresh ones. Whatever a
		// failing call leaks per call (a token, a goroutine, a pooled decoder that is never returned) adds up inside
		// this one case, so that a call that stops returning after some number of failures is a reproducible case.
		perr = noPanic("Deserialize (the same rejected blob again)", func() {
			for k := 0; k < 20; k++ {
				sk := s
				if k%2 == 1 {
					sk = simdjson.NewSerializer()
				}
				sk.Deserialize(append([]byte(nil), c.Blob...), nil)
			}
		})
		if perr != nil {
			return fmt.Errorf("%v\nblob (%d bytes): %x", perr, len(c.Blob), clipB(c.Blob))
		}
	}
	if err == nil {
		if pj == nil {
			return fmt.Errorf("Deserialize returned neither error nor result; blob %x", clipB(c.Blob))
		}
		opts := exerciseOpts{allowInterface: true, maxNodes: 200}
		if eerr := exercise(pj, opts); eerr != nil {
			return fmt.Errorf("traversal of the deserialized result failed: %v\nblob (%d bytes): %x", eerr, len(c.Blob), clipB(c.Blob))
		}
		// a second use of the same Serializer and of the destination must not panic either
		perr = noPanic("Deserialize (reuse)", func() { s.Deserialize(append([]byte(nil), c.Blob...), pj) })
		if perr != nil {
			return fmt.Errorf("%v\nblob: %x", perr, clipB(c.Blob))
		}
	}
	if len(c.Orig) > 0 {
		if ok, _ := c19Precondition(c.Orig); ok {
			s2 := simdjson.NewSerializer()
			s2.CompressMode(simdjson.CompressMode((c.Mode + 1) % 4))
			var dst, res *simdjson.ParsedJson
			var derr error
			perr = noPanic("Deserialize of the original blob", func() { dst, derr = s2.Deserialize(append([]byte(nil), c.Orig...), nil) })
			if perr != nil {
				return fmt.Errorf("%v\nblob: %x", perr, clipB(c.Orig))
			}
			if derr == nil && dst != nil {
				perr = noPanic("Deserialize into the destination that holds the original document", func() {
					res, derr = s2.Deserialize(append([]byte(nil), c.Blob...), dst)
				})
				if perr != nil {
					return fmt.Errorf("%v\noriginal blob: %x\nblob (%d bytes): %x", perr, clipB(c.Orig), len(c.Blob), clipB(c.Blob))
				}
				if derr == nil && res != nil {
					if eerr := exercise(res, exerciseOpts{allowInterface: true, maxNodes: 200}); eerr != nil {
						return fmt.Errorf("traversal of the result deserialized into a recycled destination failed: %v\noriginal blob: %x\nblob (%d bytes): %x", eerr, clipB(c.Orig), len(c.Blob), clipB(c.Blob))
					}
				}
			}
		}
	}
	return waitGoroutines(base)
}

func clipB(b []byte) []byte {
	if len(b) > 400 {
		return b[:400]
	}
	return b
}

var c19Run = register("C19", "blob", c19Check)

// ---- source blobs and mutators ----

func genBlob(t *rapid.T) ([]byte, int) {
	var text []byte
	nd := false
	switch rapid.IntRange(0, 5).Draw(t, "src") {
	case 0:
		text = []byte(`{"a":[1,-2,3.5,"x",null,true,false,{"b":"y"}],"c":"x","d":18446744073709551615,"e":1e400000}`[:0])
		text = []byte(`{"a":[1,-2,3.5,"x",null,true,false,{"b":"y"}],"c":"x","d":18446744073709551615,"e":123456789012345678901}`)
	case 1:
		text = []byte("[1,2]\n{\"k\":\"v\"}\n[[]]")
		nd = true
	default:
		d := genDoc(t, pickProfile(t))
		text = renderCompact(d)
	}
	var pj *simdjson.ParsedJson
	var err error
	if nd {
		pj, err = simdjson.ParseND(text, nil)
	} else {
		pj, err = simdjson.Parse(text, nil)
	}
	if err != nil {
		t.Fatalf("HARNESS-BUG: source document rejected: %v: %q", err, text)
	}
	// optionally punch NOP holes
	if rapid.Bool().Draw(t, "holes") {
		it := pj.Iter()
		k := rapid.IntRange(1, 12).Draw(t, "holeAt")
		for i := 0; ; i++ {
			tag := it.AdvanceInto()
			if tag == simdjson.TagEnd {
				break
			}
			if i >= 2 && i%k == 0 && tag != simdjson.TagRoot && tag != simdjson.TagObjectEnd && tag != simdjson.TagArrayEnd {
				if tag == simdjson.TagString && it.PeekNextTag() != simdjson.TagEnd {
					// may be a key: SetNull on a key would make an invalid document; skip strings
					continue
				}
				it.SetNull()
			}
		}
	}
	mode := rapid.IntRange(0, 3).Draw(t, "mode")
	s := simdjson.NewSerializer()
	s.CompressMode(simdjson.CompressMode(mode))
	return s.Serialize(nil, *pj), mode
}

var tagPool = []byte{'"', 'l', 'u', 'd', 'n', 't', 'f', '{', '}', '[', ']', 'r', 'N', 'e', 0, 'x', 0xff}

func mutateBlob(t *rapid.T, blob []byte) ([]byte, string) {
	switch rapid.IntRange(0, 9).Draw(t, "bm") {
	case 0:
		return blob[:rapid.IntRange(0, len(blob)).Draw(t, "cut")], "truncate"
	case 1:
		cp := append([]byte(nil), blob...)
		n := rapid.IntRange(1, 3).Draw(t, "flips")
		for i := 0; i < n && len(cp) > 0; i++ {
			p := rapid.IntRange(0, len(cp)-1).Draw(t, "bp")
			cp[p] ^= 1 << uint(rapid.IntRange(0, 7).Draw(t, "bit"))
		}
		return cp, "bitflip"
	case 2:
		cp := append([]byte(nil), blob...)
		if len(cp) > 0 {
			p := rapid.IntRange(0, len(cp)-1).Draw(t, "bp")
			cp[p] = rapid.Byte().Draw(t, "bv")
		}
		return cp, "substitute"
	case 3:
		other, _ := genBlob(t)
		a := rapid.IntRange(0, len(blob)).Draw(t, "sa")
		b := rapid.IntRange(0, len(other)).Draw(t, "sb")
		return append(append([]byte(nil), blob[:a]...), other[b:]...), "splice"
	case 4:
		return rapid.SliceOfN(rapid.Byte(), 0, 64).Draw(t, "rnd"), "random"
	default:
		rb, err := decodeBlob(blob)
		if err != nil {
			return blob, "unmutated"
		}
		kind := "structure"
		n := rapid.IntRange(1, 3).Draw(t, "nsm")
		for i := 0; i < n; i++ {
			switch rapid.IntRange(0, 15).Draw(t, "sm") {
			case 15: // a block stored empty although a size is declared for it
				rb.emptyBlock[rapid.IntRange(0, 2).Draw(t, "eb")] = true
				kind = "structure-empty-block"
			case 0, 1, 2: // change a tag
				if len(rb.tags) > 0 {
					p := rapid.IntRange(0, len(rb.tags)-1).Draw(t, "tp")
					rb.tags[p] = tagPool[rapid.IntRange(0, len(tagPool)-1).Draw(t, "tv")]
					kind = "structure-tag"
				}
			case 3, 4: // change a value word
				if len(rb.vals) >= 8 {
					p := rapid.IntRange(0, len(rb.vals)/8-1).Draw(t, "vp") * 8
					old := binary.LittleEndian.Uint64(rb.vals[p:])
					nv := []uint64{0, 1, ^uint64(0), 1 << 63, old + 1, old - 1, uint64(len(rb.tags)), rb.tapeSize, rb.tapeSize + 1, 1 << 32, 2, old ^ (1 << 55)}[rapid.IntRange(0, 11).Draw(t, "vv")]
					binary.LittleEndian.PutUint64(rb.vals[p:], nv)
					kind = "structure-value"
				}
			case 5: // declared sizes
				d := uint64(int64(rapid.IntRange(-2, 2).Draw(t, "ds")))
				switch rapid.IntRange(0, 3).Draw(t, "which") {
				case 0:
					rb.tapeSize += d
				case 1:
					rb.msgSize += d
				case 2:
					rb.tagsSize += d
				default:
					rb.valSize += d * 8
				}
				kind = "structure-size"
			case 6: // insert or delete a tag
				if len(rb.tags) > 0 {
					p := rapid.IntRange(0, len(rb.tags)-1).Draw(t, "tp")
					if rapid.Bool().Draw(t, "del") {
						rb.tags = append(rb.tags[:p], rb.tags[p+1:]...)
					} else {
						rb.tags = append(rb.tags[:p], append([]byte{tagPool[rapid.IntRange(0, len(tagPool)-1).Draw(t, "tv")]}, rb.tags[p:]...)...)
					}
					if rapid.Bool().Draw(t, "fixsize") {
						rb.tagsSize = uint64(len(rb.tags))
					}
					kind = "structure-taglen"
				}
			case 7: // truncate or extend the values
				if rapid.Bool().Draw(t, "ext") {
					rb.vals = append(rb.vals, make([]byte, 8*rapid.IntRange(1, 2).Draw(t, "nw"))...)
				} else if len(rb.vals) >= 8 {
					rb.vals = rb.vals[:len(rb.vals)-8]
				}
				if rapid.Bool().Draw(t, "fixsize") {
					rb.valSize = uint64(len(rb.vals))
				}
				kind = "structure-vallen"
			case 8: // block types
				ty := byte(rapid.IntRange(0, 3).Draw(t, "bt"))
				switch rapid.IntRange(0, 2).Draw(t, "wb") {
				case 0:
					rb.msgTyp = ty
				case 1:
					rb.tagsTyp = ty
				default:
					rb.valsTyp = ty
				}
				kind = "structure-blocktype"
			case 9: // coordinated: turn a value-carrying tag into a pointer tag and set its value word
				type tv struct{ ti, vi, to int }
				var cands []tv
				vi, to := 0, 0
				for ti, tg := range rb.tags {
					switch tg {
					case '"', 'e':
						cands = append(cands, tv{ti, vi, to})
						vi += 2
						to += 2
					case 'l', 'u', 'd':
						cands = append(cands, tv{ti, vi, to})
						vi++
						to += 2
					case '{', '[', 'r':
						cands = append(cands, tv{ti, vi, to})
						vi++
						to++
					default:
						to++
					}
				}
				if len(cands) > 0 {
					c := cands[rapid.IntRange(0, len(cands)-1).Draw(t, "cand")]
					old := rb.tags[c.ti]
					nt := []byte{'r', '{', '[', 'r', old}[rapid.IntRange(0, 4).Draw(t, "nt")]
					// keep the number of value words consumed consistent: only swap among one-word tags, or shrink a two-word tag
					if (old == '"' || old == 'e') && c.vi*8+16 <= len(rb.vals) {
						rb.vals = append(rb.vals[:c.vi*8+8], rb.vals[c.vi*8+16:]...)
						rb.valSize = uint64(len(rb.vals))
						rb.tapeSize-- // two tape words become one
					} else if old == 'l' || old == 'u' || old == 'd' {
						rb.tapeSize--
					}
					rb.tags[c.ti] = nt
					if c.vi*8+8 <= len(rb.vals) {
						// retarget the pointer at an arbitrary tape index (stored relative to the tag's own tape offset)
						target := uint64(rapid.IntRange(0, int(rb.tapeSize%100000)+1).Draw(t, "target"))
						nv := []uint64{0, 1, 2, ^uint64(0), target - uint64(c.to), target - uint64(c.to), target - uint64(c.to), uint64(rapid.IntRange(0, 40).Draw(t, "fwd"))}[rapid.IntRange(0, 7).Draw(t, "cv")]
						binary.LittleEndian.PutUint64(rb.vals[c.vi*8:], nv)
					}
					kind = "structure-coordinated"
				}
			case 11: // declared block sizes: huge varints and off-by-a-few values
				huge := []uint64{^uint64(0), 1<<63 + 1, 1 << 63, 1<<63 - 1, 1 << 62, 1 << 32, 1<<31 + 1}
				v := huge[rapid.IntRange(0, len(huge)-1).Draw(t, "huge")]
				if rapid.IntRange(0, 2).Draw(t, "near") == 0 {
					v = uint64(len(rb.tags) + rapid.IntRange(0, 6).Draw(t, "nearv"))
				}
				switch rapid.IntRange(0, 3).Draw(t, "whichsize") {
				case 3:
					rb.compSize = v
				default:
					rb.blockSize[rapid.IntRange(0, 2).Draw(t, "whichblock")] = v
				}
				kind = "structure-block-size"
			case 10: // a flagged-float entry ('e') stores its tape word verbatim: give that word another tag byte
				vi := 0
				type ev struct{ ti, vi int }
				var es, ones []ev
				for ti, tg := range rb.tags {
					switch tg {
					case '"':
						vi += 2
					case 'e':
						es = append(es, ev{ti, vi})
						vi += 2
					case 'l', 'u', 'd':
						ones = append(ones, ev{ti, vi})
						vi++
					case '{', '[', 'r':
						vi++
					}
				}
				if len(es) == 0 && len(ones) > 0 {
					// turn a number into a flagged float: one more value word
					c := ones[rapid.IntRange(0, len(ones)-1).Draw(t, "one")]
					if c.vi*8+8 <= len(rb.vals) {
						rb.tags[c.ti] = 'e'
						nv := append([]byte(nil), rb.vals[:c.vi*8]...)
						nv = append(nv, make([]byte, 8)...)
						nv = append(nv, rb.vals[c.vi*8:]...)
						rb.vals = nv
						rb.valSize = uint64(len(rb.vals))
						es = append(es, c)
					}
				}
				if len(es) > 0 {
					c := es[rapid.IntRange(0, len(es)-1).Draw(t, "e")]
					if c.vi*8+8 <= len(rb.vals) {
						tg := tagPool[rapid.IntRange(0, len(tagPool)-1).Draw(t, "etag")]
						pay := []uint64{0, 1, 2, 3, uint64(rapid.IntRange(0, 64).Draw(t, "epay")), 1<<56 - 1, uint64(rb.tapeSize)}[rapid.IntRange(0, 6).Draw(t, "epk")]
						binary.LittleEndian.PutUint64(rb.vals[c.vi*8:], uint64(tg)<<56|pay)
						kind = "structure-flagged-float-word"
					}
				}
			default: // message shorter than the strings that point into it
				if len(rb.msg) > 0 {
					rb.msg = rb.msg[:rapid.IntRange(0, len(rb.msg)-1).Draw(t, "ml")]
					rb.msgSize = uint64(len(rb.msg))
					kind = "structure-message"
				}
			}
		}
		// re-frame; keep tape size consistent now and then so that the rebuild runs to the end
		return rb.encode(), kind
	}
}

func TestC19_Mutants(t *testing.T) {
	runRapid(t, "C19_Mutants", nCases(250_000, 6_000_000), func(t *rapid.T) {
		blob, _ := genBlob(t)
		mut, kind := mutateBlob(t, blob)
		c := blobCase{Blob: mut, Mode: rapid.IntRange(0, 3).Draw(t, "dmode")}
		if rapid.IntRange(0, 2).Draw(t, "recycle") == 0 {
			c.Orig = blob
		}
		cl := col("C19")
		if ok, why := c19Precondition(mut); !ok {
			cl.Skip(why)
			return
		}
		c19Run(t, c)
		cl.Eval(reachesRebuild(mut), evidHash(mut), "mut:"+kind, boolClass("into-recycled-destination", len(c.Orig) > 0))
		cl.Sample(func() interface{} {
			return map[string]interface{}{"blob_hex": fmt.Sprintf("%x", clipB(mut)), "len": len(mut), "mutation": kind}
		})
	})
	col("C19").Completed("TestC19_Mutants")
}

// TestC19_Truncations: every truncation and every single-byte substitution (a few values) of small valid blobs.
func TestC19_Truncations(t *testing.T) {
	docs := []string{`[1]`, `{"a":"b"}`, `[1.5,-2,"s",null,true,{"k":[]}]`, `{"a":{"b":{"c":[1,2,3]}},"s":"\n"}`, `[123456789012345678901,18446744073709551615]`}
	idx := 0
	for _, d := range docs {
		pj, err := simdjson.Parse([]byte(d), nil)
		if err != nil {
			t.Fatalf("HARNESS-BUG: %v", err)
		}
		for mode := 0; mode < 4; mode++ {
			s := simdjson.NewSerializer()
			s.CompressMode(simdjson.CompressMode(mode))
			blob := s.Serialize(nil, *pj)
			for cut := 0; cut <= len(blob); cut++ {
				idx++
				if idx%envNShards != envShard {
					continue
				}
				c := blobCase{Blob: append([]byte(nil), blob[:cut]...), Mode: mode}
				c19Run(t, c)
				col("C19").Eval(reachesRebuild(c.Blob), evidHash(c.Blob), "mut:every-truncation")
			}
			for p := 0; p < len(blob); p++ {
				for _, v := range []byte{0, 1, 2, 3, 0x7f, 0x80, 0xff, blob[p] + 1, blob[p] - 1, blob[p] ^ 0x40} {
					idx++
					if idx%envNShards != envShard {
						continue
					}
					cp := append([]byte(nil), blob...)
					cp[p] = v
					if ok, why := c19Precondition(cp); !ok {
						col("C19").Skip(why)
						continue
					}
					c := blobCase{Blob: cp, Mode: mode}
					if idx%3 == 0 {
						c.Orig = blob
					}
					c19Run(t, c)
					col("C19").Eval(reachesRebuild(cp), evidHash(cp), "mut:every-byte-substitution")
				}
			}
		}
	}
	col("C19").Exhaustive("every truncation and 10 substitutions of every byte of 5 documents x 4 modes")
	col("C19").Completed("TestC19_Truncations")
}
