//go:build verif

package props

import (
	"bytes"
	"crypto/sha256"
	"encoding/json"
	"fmt"
	"io"
	"runtime"
	"strconv"
	"strings"
	"sync"
	"testing"
	"time"

	simdjson "github.com/minio/simdjson-go"
	"pgregory.net/rapid"
)

// C20: independent objects can be used from concurrent goroutines.

type c20Step struct {
	Op   string `json:"op"` // parse parseND parseBad stream traverse cloneEdit serialize deserialize gc
	Size int    `json:"size"`
	Copy bool   `json:"copy"`
	Mode int    `json:"mode"`
	Re   bool   `json:"re"` // reuse the goroutine's previous result object
}

type c20Case struct {
	Programs [][]c20Step `json:"programs"`
	Procs    int         `json:"procs"`
	Repeat   int         `json:"repeat"` // each program is run this many times in a row
	AVX2     bool        `json:"avx2"`   // run the whole case on the AVX2 kernels (their Go wrappers differ from the AVX-512 ones)
}

// docFor builds a document that names its goroutine, so that any cross-talk shows up in the content.
func docFor(g, size, salt int) []byte {
	var b bytes.Buffer
	n := []int{3, 40, 160, 400, 2200}[size%5] // 160 and 400 are beyond the 8 KiB concurrent-pipeline threshold; 2200 items need more index buffers than the stage-1/stage-2 channel holds
	// (keys of equal length that differ between goroutines: whatever is cached or pooled per key length shows)
	b.WriteString(`{"goroutine":` + strconv.Itoa(g) + `,"key-g` + fmt.Sprintf("%02d", g%100) + `":` + strconv.Itoa(g) + `,"salt":` + strconv.Itoa(salt) + `,"items":[`)
	for i := 0; i < n; i++ {
		if i > 0 {
			b.WriteByte(',')
		}
		b.WriteString(`{"id":"g` + strconv.Itoa(g) + `-` + strconv.Itoa(i) + `","v":` + strconv.Itoa(g*100000+i) + `,"f":` + strconv.Itoa((i*7+g*13)%1000) + `.` + strconv.Itoa((g+i)%10) + `5,"s":"esc\n` + strconv.Itoa(g) + `","k` + strconv.Itoa(g%10) + `":null}`)
	}
	b.WriteString(`]`)
	if salt%3 != 2 {
		// a long final string (its end is close to the end of the input): the string parser works on a padded copy
		b.WriteString(`,"tail":"` + strings.Repeat("g"+strconv.Itoa(g)+"-", 120+salt%60) + `"`)
	}
	b.WriteString(`}`)
	return b.Bytes()
}

type c20State struct {
	g    int
	pj   *simdjson.ParsedJson
	ser  *simdjson.Serializer
	blob []byte
	h    []string
}

func (s *c20State) note(what string, data []byte, err error) {
	sum := sha256.Sum256(data)
	e := ""
	if err != nil {
		e = err.Error()
	}
	s.h = append(s.h, fmt.Sprintf("%s:%x:%s", what, sum[:8], e))
}

func runProgram(g int, prog []c20Step, repeat int) []string {
	st := &c20State{g: g, ser: simdjson.NewSerializer()}
	for r := 0; r < repeat; r++ {
		for i, step := range prog {
			salt := r*1000 + i
			switch step.Op {
			case "parse", "parseND":
				var reuse *simdjson.ParsedJson
				if step.Re {
					reuse = st.pj
				}
				doc := docFor(g, step.Size, salt)
				var pj *simdjson.ParsedJson
				var err error
				if step.Op == "parseND" {
					doc = append(append(append([]byte(nil), doc...), '\n'), docFor(g, 0, salt+1)...)
					pj, err = simdjson.ParseND(doc, reuse, simdjson.WithCopyStrings(step.Copy))
				} else {
					pj, err = simdjson.Parse(doc, reuse, simdjson.WithCopyStrings(step.Copy))
				}
				if err == nil {
					st.pj = pj
					c, werr := walkW1(pj)
					st.note(step.Op, c, werr)
				} else {
					st.note(step.Op, nil, err)
				}
			case "parseBad":
				// a rejected document (late stage-1 error or early stage-2 error, on either side of the pipeline
				// threshold) parsed into the goroutine's own object, which is then recycled at once as a Clone
				// destination: whatever the failed call left running must not touch it any more
				doc := docFor(g, step.Size, salt)
				if step.Copy {
					doc = append(doc[:len(doc)-2:len(doc)-2], []byte(`"unterminated`)...)
				} else {
					doc = append([]byte(`{"early":1 "missing":"comma",`), doc[1:]...)
				}
				_, err := simdjson.Parse(doc, st.pj, simdjson.WithCopyStrings(step.Mode%2 == 0))
				st.note("parseBad", nil, nil)
				if err == nil {
					st.note("parseBad-accepted", doc, nil)
				}
				if st.pj != nil {
					small, serr := simdjson.Parse(docFor(g, 0, salt+7), nil)
					if serr == nil {
						st.pj = small.Clone(st.pj)
						c, werr := walkW1(st.pj)
						st.note("recycled", c, werr)
					}
				}
			case "stream":
				var data []byte
				for k := 0; k < 1+step.Size%4; k++ {
					data = append(append(data, docFor(g, 0, salt+k)...), '\n')
				}
				res := make(chan simdjson.Stream, 2)
				simdjson.ParseNDStream(&fragReader{data: data, frags: []int{7 + step.Size}, errAt: -1}, res, nil)
				var all []byte
				var serr error
				for v := range res {
					if v.Error != nil {
						if v.Error != io.EOF {
							serr = v.Error
						}
						continue
					}
					c, _ := walkW1(v.Value)
					all = append(append(all, c...), '|')
				}
				st.note("stream", all, serr)
			case "traverse":
				if st.pj == nil {
					continue
				}
				c, err := walkW5(st.pj)
				st.note("iface", c, err)
				it := st.pj.Iter()
				m, err := it.MarshalJSON()
				st.note("marshal", m, err)
				c, err = walkW4(st.pj)
				st.note("foreach", c, err)
				c, err = walkCvt(st.pj)
				st.note("stringcvt", c, err)
			case "cloneEdit":
				if st.pj == nil {
					continue
				}
				cl := st.pj.Clone(nil)
				it := cl.Iter()
				for {
					tag := it.AdvanceInto()
					if tag == simdjson.TagEnd {
						break
					}
					if tag == simdjson.TagInteger {
						it.SetString("edited-by-g" + strconv.Itoa(g) + strings.Repeat("!", step.Size%50))
						break
					}
				}
				c, err := walkW1(cl)
				st.note("clone", c, err)
				c, err = walkW1(st.pj)
				st.note("orig", c, err)
			case "serialize":
				if st.pj == nil {
					continue
				}
				st.ser.CompressMode(simdjson.CompressMode(step.Mode % 4))
				st.blob = st.ser.Serialize(st.blob[:0], *st.pj)
				// the bytes themselves are the result of Serialize: they depend on the document, the mode and this
				// Serializer's own history, never on what other callers' Serializers did
				st.note("serialize", st.blob, nil)
			case "deserialize":
				if st.blob == nil {
					continue
				}
				var dst *simdjson.ParsedJson
				if step.Re {
					dst = st.pj
				}
				out, err := st.ser.Deserialize(st.blob, dst)
				if err == nil {
					c, werr := walkW1(out)
					st.note("deserialize", c, werr)
					st.pj = out
				} else {
					st.note("deserialize", nil, err)
				}
			case "gc":
				runtime.GC()
			}
		}
	}
	return st.h
}

type c20Facts struct {
	overlapped int
	sameCodec  int
}

var lastC20 c20Facts

func c20Check(c c20Case) (err error) {
	crumb("C20", "programs", c)
	defer clearCrumb()
	lim := 4 * time.Minute
	if thorough() {
		lim = 10 * time.Minute
	}
	stop := watchdog(lim, "C20 case")
	defer stop()
	// the kernel is a process-wide switch: it is set before the goroutines start and restored after they have been joined
	withKernel(!c.AVX2, func() { err = c20Body(c) })
	return err
}

func c20Body(c c20Case) error {
	procs := c.Procs
	if procs < 1 {
		procs = 1
	}
	repeat := c.Repeat
	if repeat < 1 {
		repeat = 1
	}
	// reference transcripts: each program alone
	want := make([][]string, len(c.Programs))
	for g, p := range c.Programs {
		want[g] = runProgram(g, p, repeat)
	}
	old := runtime.GOMAXPROCS(procs)
	defer runtime.GOMAXPROCS(old)
	got := make([][]string, len(c.Programs))
	starts := make([]time.Time, len(c.Programs))
	ends := make([]time.Time, len(c.Programs))
	var wg sync.WaitGroup
	barrier := make(chan struct{})
	for g := range c.Programs {
		wg.Add(1)
		go func(g int) {
			defer wg.Done()
			<-barrier
			starts[g] = time.Now()
			got[g] = runProgram(g, c.Programs[g], repeat)
			ends[g] = time.Now()
		}(g)
	}
	close(barrier)
	wg.Wait()
	for g := range c.Programs {
		if len(got[g]) != len(want[g]) {
			return fmt.Errorf("goroutine %d produced %d results when run concurrently, %d when run alone", g, len(got[g]), len(want[g]))
		}
		for i := range want[g] {
			if got[g][i] != want[g][i] {
				return fmt.Errorf("goroutine %d, result %d differs when run concurrently with %d others (GOMAXPROCS %d): alone %q, concurrent %q\nprogram: %v",
					g, i, len(c.Programs)-1, procs, want[g][i], got[g][i], c.Programs[g])
			}
		}
	}
	// overlap: goroutines whose run interval contains the latest start
	var latest time.Time
	for _, s := range starts {
		if s.After(latest) {
			latest = s
		}
	}
	ov := 0
	for g := range ends {
		if ends[g].After(latest) {
			ov++
		}
	}
	codec := map[int]int{}
	for _, p := range c.Programs {
		seen := map[int]bool{}
		for _, s := range p {
			if s.Op == "serialize" && !seen[s.Mode%4] {
				seen[s.Mode%4] = true
				codec[s.Mode%4]++
			}
		}
	}
	same := 0
	for _, n := range codec {
		if n > same {
			same = n
		}
	}
	lastC20 = c20Facts{overlapped: ov, sameCodec: same}
	return nil
}

var c20Run = register("C20", "programs", c20Check)

func genProgram(t *rapid.T, zstdPressure bool) []c20Step {
	n := rapid.IntRange(2, 8).Draw(t, "steps")
	gcs := 0
	var p []c20Step
	p = append(p, c20Step{Op: "parse", Size: rapid.IntRange(0, 3).Draw(t, "size0"), Copy: rapid.Bool().Draw(t, "copy0")})
	for i := 0; i < n; i++ {
		op := []string{"parse", "parseND", "stream", "traverse", "cloneEdit", "serialize", "serialize", "deserialize", "deserialize", "gc", "traverse", "parseBad"}[rapid.IntRange(0, 11).Draw(t, "op")]
		sz := rapid.IntRange(0, 3).Draw(t, "size")
		if rapid.IntRange(0, 11).Draw(t, "huge") == 0 {
			sz = 4
		}
		s := c20Step{Op: op, Size: sz, Copy: rapid.Bool().Draw(t, "copy"), Mode: rapid.IntRange(0, 3).Draw(t, "mode"), Re: rapid.Bool().Draw(t, "re")}
		if zstdPressure && op == "serialize" {
			s.Mode = 3
		}
		if op == "gc" {
			gcs++
			if gcs > 1 {
				s.Op = "traverse"
			}
		}
		if op == "stream" && rapid.IntRange(0, 2).Draw(t, "fewerstreams") != 0 {
			s.Op = "traverse" // streams allocate 10 MiB per chunk; keep them rare
		}
		p = append(p, s)
	}
	return p
}

func TestC20_Programs(t *testing.T) {
	runRapid(t, "C20_Programs", nCases(300, 8_000), func(t *rapid.T) {
		ng := rapid.IntRange(2, 16).Draw(t, "goroutines")
		if rapid.IntRange(0, 7).Draw(t, "many") == 0 {
			ng = rapid.IntRange(16, 64).Draw(t, "manyg")
		}
		pressure := rapid.IntRange(0, 3).Draw(t, "zstdpressure") == 0
		c := c20Case{Procs: []int{1, 2, 4, 16, 32}[rapid.IntRange(0, 4).Draw(t, "procs")], Repeat: rapid.IntRange(1, 2).Draw(t, "repeat"), AVX2: rapid.IntRange(0, 2).Draw(t, "avx2") == 0}
		same := rapid.Bool().Draw(t, "sameprogram")
		var first []c20Step
		for g := 0; g < ng; g++ {
			if same && g > 0 {
				c.Programs = append(c.Programs, first)
				continue
			}
			p := genProgram(t, pressure)
			if g == 0 {
				first = p
			}
			c.Programs = append(c.Programs, p)
		}
		c20Run(t, c)
		f := lastC20
		b, _ := json.Marshal(c)
		cl := col("C20")
		cl.Eval(f.overlapped >= 4 && f.sameCodec >= 2, evidHash(b), fmt.Sprintf("procs:%d", c.Procs), fmt.Sprintf("goroutines:%d", bucketG(ng)), fmt.Sprintf("overlapped:%d", bucketG(f.overlapped)), boolClass("zstd-pressure", pressure), boolClass("avx2-kernels", c.AVX2))
		cl.Sample(func() interface{} {
			return map[string]interface{}{"goroutines": ng, "procs": c.Procs, "repeat": c.Repeat, "overlapped": f.overlapped, "program0": c.Programs[0]}
		})
	})
	col("C20").Completed("TestC20_Programs")
}

func bucketG(n int) int {
	switch {
	case n < 4:
		return 2
	case n < 8:
		return 4
	case n < 16:
		return 8
	case n < 32:
		return 16
	}
	return 32
}

// walkCvt renders every scalar through StringCvt (which formats floats through a scratch buffer).
func walkCvt(pj *simdjson.ParsedJson) ([]byte, error) {
	it := pj.Iter()
	var out []byte
	for {
		tag := it.AdvanceInto()
		if tag == simdjson.TagEnd {
			return out, nil
		}
		switch tag.Type() {
		case simdjson.TypeString, simdjson.TypeInt, simdjson.TypeUint, simdjson.TypeFloat, simdjson.TypeBool, simdjson.TypeNull:
			s, err := it.StringCvt()
			if err != nil {
				return out, err
			}
			out = append(append(out, s...), 0)
		}
	}
}

// ---------------------------------------------------------------------------------------------
// Pool isolation without concurrency: the package-level pools of compressors behind Serialize are shared by every
// Serializer in the process. What one caller's Serializer did (in another mode) must not change the bytes another
// caller's fresh Serializer produces: the pools are emptied (two GC cycles clear a sync.Pool), a reference is taken,
// the pools are then filled by Serializers of other modes, and the same call must give the same bytes again.

type c20PoolCase struct {
	Doc    []byte `json:"doc"`
	Mode   int    `json:"mode"`   // mode under test
	Others []int  `json:"others"` // modes other callers use in between
	Rounds int    `json:"rounds"`
}

func c20PoolCheck(c c20PoolCase) error {
	pj, err := simdjson.Parse(append([]byte(nil), c.Doc...), nil)
	if err != nil {
		return bugf("document rejected: %v", err)
	}
	other, err := simdjson.Parse([]byte(`{"other":["caller",1,2.5,"`+strings.Repeat("abcdefgh", 600)+`"],"x":[`+strings.Repeat("12345,", 3000)+`0]}`), nil)
	if err != nil {
		return bugf("%v", err)
	}
	serialize := func(mode int, p *simdjson.ParsedJson) []byte {
		s := simdjson.NewSerializer()
		s.CompressMode(simdjson.CompressMode(mode % 4))
		return s.Serialize(nil, *p)
	}
	runtime.GC()
	runtime.GC()
	ref := serialize(c.Mode, pj)
	ref2 := serialize(c.Mode, pj)
	if !bytes.Equal(ref, ref2) {
		col("C20").Skip("pool isolation: Serialize is not byte-deterministic for this document and mode even alone")
		return nil
	}
	for r := 0; r < c.Rounds; r++ {
		for _, m := range c.Others {
			_ = serialize(m, other)
			_ = serialize(m, pj)
		}
		got := serialize(c.Mode, pj)
		if !bytes.Equal(got, ref) {
			return fmt.Errorf("a fresh Serializer in mode %d produced %d bytes for this document alone, but %d different bytes after other Serializers had run in modes %v (round %d): package-level state leaked between callers", c.Mode%4, len(ref), len(got), c.Others, r)
		}
		back, err := simdjson.NewSerializer().Deserialize(got, nil)
		if err != nil {
			return fmt.Errorf("Deserialize of the serialized bytes: %v", err)
		}
		a, _ := walkW1(pj)
		b, err := walkW1(back)
		if err != nil || !bytes.Equal(a, b) {
			return fmt.Errorf("round trip after other Serializers had run in modes %v differs: %v", c.Others, err)
		}
	}
	return nil
}

var c20PoolRun = register("C20", "pool-isolation", c20PoolCheck)

func TestC20_PoolIsolation(t *testing.T) {
	runRapid(t, "C20_PoolIsolation", nCases(160, 4000), func(t *rapid.T) {
		var doc []byte
		if rapid.Bool().Draw(t, "big") {
			doc = docFor(rapid.IntRange(0, 7).Draw(t, "g"), rapid.IntRange(0, 3).Draw(t, "size"), rapid.IntRange(0, 99).Draw(t, "salt"))
		} else {
			doc = renderCompact(genDoc(t, pickProfile(t)))
		}
		c := c20PoolCase{Doc: doc, Mode: rapid.IntRange(0, 3).Draw(t, "mode"), Rounds: rapid.IntRange(1, 3).Draw(t, "rounds"),
			Others: rapid.SliceOfN(rapid.IntRange(0, 3), 1, 4).Draw(t, "others")}
		c20PoolRun(t, c)
		b, _ := json.Marshal(c)
		col("C20").Eval(true, evidHash(b), "kind:pool-isolation", fmt.Sprintf("mode:%d", c.Mode))
	})
	col("C20").Completed("TestC20_PoolIsolation")
}
