package props

import (
	"bytes"
	"fmt"
	"math"
	"sort"
	"strconv"

	rj "verifharness/internal/refjson"
)

// Canonical form: an unambiguous byte rendering of an abstract document, used to compare what a
// walker observed with what the model expects.
//
//	null n | true t | false f | int i<dec>; | uint u<dec>; | float d<hexbits>[!]; | string s<len>:<bytes>
//	array [v,v,...] | object {key=v,key=v,...} (key in string form)
//
// canonOpts.noFlags drops the float flag (APIs that cannot show it); canonOpts.mapMode renders objects the
// way map-producing APIs see them (sorted keys, last duplicate wins).
type canonOpts struct {
	noFlags bool
	mapMode bool
	// intsAsFloat: all numbers as the float64 they convert to (unused so far)
}

func canonStr(dst []byte, s []byte) []byte {
	dst = append(dst, 's')
	dst = strconv.AppendInt(dst, int64(len(s)), 10)
	dst = append(dst, ':')
	return append(dst, s...)
}

func canonNum(dst []byte, nt byte, bits uint64, flag bool, o canonOpts) []byte {
	switch nt {
	case 'i':
		dst = append(dst, 'i')
		dst = strconv.AppendInt(dst, int64(bits), 10)
	case 'u':
		dst = append(dst, 'u')
		dst = strconv.AppendUint(dst, bits, 10)
	case 'f':
		dst = append(dst, 'd')
		dst = strconv.AppendUint(dst, bits, 16)
		if flag && !o.noFlags {
			dst = append(dst, '!')
		}
	default:
		dst = append(dst, '?')
	}
	return append(dst, ';')
}

// canonNode renders the model document. Numbers must be resolved.
func canonNode(dst []byte, n *rj.Node, o canonOpts) []byte {
	switch n.K {
	case rj.Null:
		return append(dst, 'n')
	case rj.Bool:
		if n.B {
			return append(dst, 't')
		}
		return append(dst, 'f')
	case rj.Num:
		return canonNum(dst, n.NT, n.NBits, n.NFlag, o)
	case rj.Str:
		return canonStr(dst, n.S)
	case rj.Arr:
		dst = append(dst, '[')
		for i, c := range n.A {
			if i > 0 {
				dst = append(dst, ',')
			}
			dst = canonNode(dst, c, o)
		}
		return append(dst, ']')
	case rj.Obj:
		dst = append(dst, '{')
		ms := n.O
		if o.mapMode {
			last := map[string]int{}
			for i, m := range ms {
				last[string(m.Key)] = i
			}
			idx := make([]int, 0, len(last))
			for _, i := range last {
				idx = append(idx, i)
			}
			sort.Slice(idx, func(a, b int) bool { return bytes.Compare(ms[idx[a]].Key, ms[idx[b]].Key) < 0 })
			for j, i := range idx {
				if j > 0 {
					dst = append(dst, ',')
				}
				dst = canonStr(dst, ms[i].Key)
				dst = append(dst, '=')
				dst = canonNode(dst, ms[i].Val, o)
			}
			return append(dst, '}')
		}
		for i, m := range ms {
			if i > 0 {
				dst = append(dst, ',')
			}
			dst = canonStr(dst, m.Key)
			dst = append(dst, '=')
			dst = canonNode(dst, m.Val, o)
		}
		return append(dst, '}')
	}
	return append(dst, '?')
}

// canonIface renders what Iter.Interface / Object.Map / Array.Interface returned (always map mode, no flags).
func canonIface(dst []byte, v interface{}) []byte {
	switch x := v.(type) {
	case nil:
		return append(dst, 'n')
	case bool:
		if x {
			return append(dst, 't')
		}
		return append(dst, 'f')
	case int64:
		return canonNum(dst, 'i', uint64(x), false, canonOpts{})
	case uint64:
		return canonNum(dst, 'u', x, false, canonOpts{})
	case float64:
		return canonNum(dst, 'f', math.Float64bits(x), false, canonOpts{noFlags: true})
	case string:
		return canonStr(dst, []byte(x))
	case []interface{}:
		dst = append(dst, '[')
		for i, c := range x {
			if i > 0 {
				dst = append(dst, ',')
			}
			dst = canonIface(dst, c)
		}
		return append(dst, ']')
	case map[string]interface{}:
		ks := make([]string, 0, len(x))
		for k := range x {
			ks = append(ks, k)
		}
		sort.Strings(ks)
		dst = append(dst, '{')
		for i, k := range ks {
			if i > 0 {
				dst = append(dst, ',')
			}
			dst = canonStr(dst, []byte(k))
			dst = append(dst, '=')
			dst = canonIface(dst, x[k])
		}
		return append(dst, '}')
	}
	return append(dst, fmt.Sprintf("?%T", v)...)
}

// diffCanon describes the first difference between two canonical renderings.
func diffCanon(want, got []byte) string {
	n := len(want)
	if len(got) < n {
		n = len(got)
	}
	i := 0
	for i < n && want[i] == got[i] {
		i++
	}
	ctx := func(b []byte) string {
		lo, hi := i-40, i+60
		if lo < 0 {
			lo = 0
		}
		if hi > len(b) {
			hi = len(b)
		}
		return fmt.Sprintf("%q", b[lo:hi])
	}
	return fmt.Sprintf("first difference at canonical offset %d (lens want %d got %d): want ...%s... got ...%s...", i, len(want), len(got), ctx(want), ctx(got))
}

// ---------------------------------------------------------------------------------------------
// Model helpers

func cloneNode(n *rj.Node) *rj.Node {
	c := *n
	if n.S != nil {
		c.S = append([]byte(nil), n.S...)
	}
	if n.A != nil {
		c.A = make([]*rj.Node, len(n.A))
		for i, x := range n.A {
			c.A[i] = cloneNode(x)
		}
	}
	if n.O != nil {
		c.O = make([]rj.Member, len(n.O))
		for i, m := range n.O {
			c.O[i] = rj.Member{Key: append([]byte(nil), m.Key...), Val: cloneNode(m.Val)}
		}
	}
	return &c
}

func nodeDepth(n *rj.Node) int {
	d := 0
	switch n.K {
	case rj.Arr:
		for _, c := range n.A {
			if x := nodeDepth(c); x > d {
				d = x
			}
		}
		return d + 1
	case rj.Obj:
		for _, m := range n.O {
			if x := nodeDepth(m.Val); x > d {
				d = x
			}
		}
		return d + 1
	}
	return 0
}

func hasDupKeys(n *rj.Node) bool {
	switch n.K {
	case rj.Arr:
		for _, c := range n.A {
			if hasDupKeys(c) {
				return true
			}
		}
	case rj.Obj:
		seen := map[string]bool{}
		for _, m := range n.O {
			if seen[string(m.Key)] {
				return true
			}
			seen[string(m.Key)] = true
			if hasDupKeys(m.Val) {
				return true
			}
		}
	}
	return false
}

func countNodes(n *rj.Node) int {
	c := 1
	switch n.K {
	case rj.Arr:
		for _, x := range n.A {
			c += countNodes(x)
		}
	case rj.Obj:
		for _, m := range n.O {
			c += 1 + countNodes(m.Val)
		}
	}
	return c
}

func mathBits(f float64) uint64 { return math.Float64bits(f) }
