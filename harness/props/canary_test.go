package props

import (
	"bytes"
	"fmt"
	"io"

	simdjson "github.com/minio/simdjson-go"
)

// canary: a fixed battery of read-only calls on FRESH objects whose results are known. It is run after a case when the driver
// hunts for the case that polluted package-level state (see canaryMode). The first run in a process records the
// reference; later runs must reproduce it byte for byte.

var canaryRef []byte

func canaryRun() (out []byte, err error) {
	defer func() {
		if r := recover(); r != nil {
			err = fmt.Errorf("panic: %v", r)
		}
	}()
	docs := [][]byte{
		[]byte(`{"a":["b\n",1,-2,2.5,18446744073709551615,123456789012345678901,{"c":null,"d":[true,false]}],"e":"f","g":{},"h":[]}`),
		[]byte(`[[[["deep"]]],{"k":"` + string(bytes.Repeat([]byte("long string "), 60)) + `"},1e300,-0.0,"tail"]`),
		// beyond 8 KiB: the two stages run as concurrent goroutines, several index buffers
		[]byte(`{"big":[` + string(bytes.Repeat([]byte(`{"id":12345,"name":"item","tags":["a","b\n"],"ok":true},`), 220)) + `null],"end":"x"}`),
	}
	note := func(what string, b []byte, e error) {
		out = append(out, what...)
		out = append(out, ':')
		out = append(out, b...)
		if e != nil {
			out = append(out, " ERR "...)
			out = append(out, e.Error()...)
		}
		out = append(out, '\n')
	}
	for _, d := range docs {
		for _, cp := range []bool{true, false} {
			pj, perr := simdjson.Parse(append([]byte(nil), d...), nil, simdjson.WithCopyStrings(cp))
			if perr != nil {
				note("parse", nil, perr)
				continue
			}
			c, werr := walkW2(pj)
			note("parse", c, werr)
			it := pj.Iter()
			m, merr := it.MarshalJSON()
			note("marshal", m, merr)
			for mode := 0; mode < 4; mode++ {
				s := simdjson.NewSerializer()
				s.CompressMode(simdjson.CompressMode(mode))
				blob := s.Serialize(nil, *pj)
				note("blob", blob, nil)
				back, derr := simdjson.NewSerializer().Deserialize(blob, nil)
				if derr != nil {
					note("deserialize", nil, derr)
					continue
				}
				c, werr = walkW2(back)
				note("deserialize", c, werr)
				// (read-only on purpose: the battery must not itself be a history that could trip a defect)
				again, derr := simdjson.NewSerializer().Deserialize(blob, nil)
				if derr != nil {
					note("deserialize-again", nil, derr)
					continue
				}
				c, werr = walkW2(again)
				note("deserialize-again", c, werr)
			}
			cl := pj.Clone(nil)
			c, werr = walkW2(cl)
			note("clone", c, werr)
		}
	}
	nd, nerr := simdjson.ParseND([]byte("[1]\n\n{\"a\":\"b\"}\r\n[[]]"), nil)
	if nerr != nil {
		note("parseND", nil, nerr)
	} else {
		c, werr := walkW2(nd)
		note("parseND", c, werr)
	}
	if _, e := simdjson.Parse([]byte(`{"a":[1,2}`), nil); e == nil {
		note("reject", []byte("accepted an invalid document"), nil)
	}
	res := make(chan simdjson.Stream, 4)
	simdjson.ParseNDStream(bytes.NewReader([]byte("{\"s\":1}\n \n[2,\"x\"]\n")), res, nil)
	for v := range res {
		if v.Error != nil {
			if v.Error != io.EOF {
				note("stream", nil, v.Error)
			}
			continue
		}
		c, werr := walkW2(v.Value)
		note("stream", c, werr)
	}
	return out, nil
}

func canary() error {
	out, err := canaryRun()
	if err != nil {
		return err
	}
	if canaryRef == nil {
		canaryRef = out
		// the battery must be stable to be usable at all
		again, err := canaryRun()
		if err != nil || !bytes.Equal(again, out) {
			canaryRef = nil
			return bugf("the canary battery is not deterministic in a clean process (%v)", err)
		}
		return nil
	}
	if !bytes.Equal(out, canaryRef) {
		a, b := bytes.Split(canaryRef, []byte{'\n'}), bytes.Split(out, []byte{'\n'})
		for i := range a {
			if i >= len(b) || !bytes.Equal(a[i], b[i]) {
				got := []byte("(missing)")
				if i < len(b) {
					got = b[i]
				}
				return fmt.Errorf("canary line %d was %q when the process started and is %q now", i, clip(a[i]), clip(got))
			}
		}
		return fmt.Errorf("canary output grew from %d to %d lines", len(a), len(b))
	}
	return nil
}
