package refjson

import (
	"math"
	"strconv"
	"testing"
)

func TestHugeExponents(t *testing.T) {
	for _, lit := range []string{"0.01e-9223372036854775808", "1e-9223372036854775807", "0e9223372036854775807", "0.0e99999999999999999999", "1e-99999999999999999999", "5E-4611686018427387904"} {
		f, ok := FloatOfLiteral(lit)
		want, err := strconv.ParseFloat(lit, 64)
		if !ok || err != nil || math.Float64bits(f) != math.Float64bits(want) {
			t.Errorf("%s: oracle %v %v, strconv %v %v", lit, f, ok, want, err)
		}
	}
	for _, lit := range []string{"1e9223372036854775807", "0.1e4611686018427387904", "1e99999999999999999999"} {
		if _, ok := FloatOfLiteral(lit); ok {
			t.Errorf("%s must be infinite", lit)
		}
	}
}
