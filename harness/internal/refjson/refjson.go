// Package refjson is the reference oracle: an RFC 8259 recogniser/decoder written
// independently of the code under test (iterative, explicit stack), a three-valued
// verdict for the carve-outs of property C01, and an exact number oracle (math/big).
package refjson

import (
	"bytes"
	"errors"
	"fmt"
	"math"
	"math/big"
	"strconv"
	"unicode/utf8"
)

type Kind uint8

const (
	Null Kind = iota
	Bool
	Num
	Str
	Arr
	Obj
)

func (k Kind) String() string {
	return [...]string{"null", "bool", "number", "string", "array", "object"}[k]
}

// Node is an abstract JSON value. Member order and duplicate keys are preserved.
type Node struct {
	K Kind
	B bool
	// numbers: Lit is the literal as written (may be empty for values produced by edits);
	// NT/NBits/NFlag are the documented exposure (see NumValue), filled by ResolveNumbers.
	Lit   string
	NT    byte // 'i' int64, 'u' uint64, 'f' float64, 0 = unresolved
	NBits uint64
	NFlag bool
	S     []byte // decoded string bytes
	Src   []byte // optional: source text between the quotes as a generator rendered it
	A     []*Node
	O     []Member
}

type Member struct {
	Key    []byte
	KeySrc []byte // optional source text of the key
	Val    *Node
}

// Verdict is the three-valued classification used by C01.
type Verdict uint8

const (
	MustReject Verdict = iota
	MustAccept
	Either
)

func (v Verdict) String() string { return [...]string{"MUST-REJECT", "MUST-ACCEPT", "EITHER"}[v] }

type mode struct {
	lenient bool // any byte >= 0x80 in strings, any \uXXXX, Unicode white space at the edges
}

// Classify returns the verdict and, when strict parsing succeeds, the document.
func Classify(in []byte) (Verdict, *Node) {
	if d, err := parse(trimJSONSpace(in), mode{}); err == nil {
		return MustAccept, d
	}
	if _, err := parse(bytes.TrimSpace(in), mode{lenient: true}); err != nil {
		return MustReject, nil
	}
	return Either, nil
}

// ParseStrict parses a document (root object or array) strictly.
func ParseStrict(in []byte) (*Node, error) { return parse(trimJSONSpace(in), mode{}) }

// ParseLenient parses with the lenient string rules (used to read back output that may hold non-UTF-8 bytes).
func ParseLenient(in []byte) (*Node, error) { return parse(trimJSONSpace(in), mode{lenient: true}) }

func isJSONSpace(c byte) bool { return c == ' ' || c == '\t' || c == '\n' || c == '\r' }

func trimJSONSpace(b []byte) []byte {
	for len(b) > 0 && isJSONSpace(b[0]) {
		b = b[1:]
	}
	for len(b) > 0 && isJSONSpace(b[len(b)-1]) {
		b = b[:len(b)-1]
	}
	return b
}

type frame struct {
	n      *Node
	key    []byte
	hasKey bool
}

var errTrailing = errors.New("trailing content")

// parse: iterative recursive-descent with an explicit stack.
func parse(in []byte, m mode) (*Node, error) {
	p := 0
	skip := func() {
		for p < len(in) && isJSONSpace(in[p]) {
			p++
		}
	}
	skip()
	if p >= len(in) {
		return nil, errors.New("empty input")
	}
	if in[p] != '{' && in[p] != '[' {
		return nil, errors.New("root is not an object or array")
	}
	var stack []frame
	var root *Node
	// attach a completed value to the container on top of the stack
	attach := func(v *Node) {
		if len(stack) == 0 {
			root = v
			return
		}
		f := &stack[len(stack)-1]
		if f.n.K == Arr {
			f.n.A = append(f.n.A, v)
		} else {
			f.n.O = append(f.n.O, Member{Key: f.key, Val: v})
			f.key, f.hasKey = nil, false
		}
	}
	// state: expecting a value
	for {
		// --- read a value (or open a container) ---
		skip()
		if p >= len(in) {
			return nil, errors.New("unexpected end, value expected")
		}
		c := in[p]
		opened := false
		switch {
		case c == '{':
			p++
			stack = append(stack, frame{n: &Node{K: Obj}})
			opened = true
		case c == '[':
			p++
			stack = append(stack, frame{n: &Node{K: Arr}})
			opened = true
		case c == '"':
			s, np, err := readString(in, p, m)
			if err != nil {
				return nil, err
			}
			p = np
			attach(&Node{K: Str, S: s})
		case c == 't':
			if !bytes.HasPrefix(in[p:], []byte("true")) {
				return nil, fmt.Errorf("bad literal at %d", p)
			}
			p += 4
			attach(&Node{K: Bool, B: true})
		case c == 'f':
			if !bytes.HasPrefix(in[p:], []byte("false")) {
				return nil, fmt.Errorf("bad literal at %d", p)
			}
			p += 5
			attach(&Node{K: Bool, B: false})
		case c == 'n':
			if !bytes.HasPrefix(in[p:], []byte("null")) {
				return nil, fmt.Errorf("bad literal at %d", p)
			}
			p += 4
			attach(&Node{K: Null})
		case c == '-' || (c >= '0' && c <= '9'):
			np, err := scanNumber(in, p)
			if err != nil {
				return nil, err
			}
			lit := string(in[p:np])
			if !FiniteLiteral(lit) {
				return nil, fmt.Errorf("number %q is not finite as float64", trunc(lit))
			}
			p = np
			attach(&Node{K: Num, Lit: lit})
		default:
			return nil, fmt.Errorf("unexpected byte %#x at %d", c, p)
		}

		if opened {
			// after an opening bracket: either an immediate close, or (object) a key, or (array) a value
			skip()
			if p >= len(in) {
				return nil, errors.New("unexpected end after open bracket")
			}
			top := &stack[len(stack)-1]
			if top.n.K == Arr {
				if in[p] == ']' {
					p++
					done := stack[len(stack)-1].n
					stack = stack[:len(stack)-1]
					attach(done)
				} else {
					continue // read first element
				}
			} else {
				if in[p] == '}' {
					p++
					done := stack[len(stack)-1].n
					stack = stack[:len(stack)-1]
					attach(done)
				} else {
					if err := readKey(in, &p, top, m, skip); err != nil {
						return nil, err
					}
					continue
				}
			}
		}

		// --- after a completed value: separators / closers ---
		for {
			if len(stack) == 0 {
				skip()
				if p != len(in) {
					return nil, errTrailing
				}
				return root, nil
			}
			skip()
			if p >= len(in) {
				return nil, errors.New("unexpected end inside container")
			}
			top := &stack[len(stack)-1]
			c := in[p]
			if c == ',' {
				p++
				if top.n.K == Obj {
					skip()
					if err := readKey(in, &p, top, m, skip); err != nil {
						return nil, err
					}
				}
				break // read next value
			}
			if (c == ']' && top.n.K == Arr) || (c == '}' && top.n.K == Obj) {
				p++
				done := top.n
				stack = stack[:len(stack)-1]
				attach(done)
				continue
			}
			return nil, fmt.Errorf("unexpected byte %#x at %d, wanted separator or close", c, p)
		}
	}
}

func readKey(in []byte, p *int, top *frame, m mode, skip func()) error {
	if *p >= len(in) || in[*p] != '"' {
		return fmt.Errorf("object key expected at %d", *p)
	}
	k, np, err := readString(in, *p, m)
	if err != nil {
		return err
	}
	*p = np
	skip()
	if *p >= len(in) || in[*p] != ':' {
		return fmt.Errorf("colon expected at %d", *p)
	}
	*p++
	top.key, top.hasKey = k, true
	return nil
}

func trunc(s string) string {
	if len(s) > 40 {
		return s[:40] + "..."
	}
	return s
}

func hexVal(c byte) int {
	switch {
	case c >= '0' && c <= '9':
		return int(c - '0')
	case c >= 'a' && c <= 'f':
		return int(c-'a') + 10
	case c >= 'A' && c <= 'F':
		return int(c-'A') + 10
	}
	return -1
}

func hex4(in []byte, p int) (int, bool) {
	if p+4 > len(in) {
		return 0, false
	}
	v := 0
	for i := 0; i < 4; i++ {
		h := hexVal(in[p+i])
		if h < 0 {
			return 0, false
		}
		v = v<<4 | h
	}
	return v, true
}

// readString decodes the string starting at the quote in[p]; returns decoded bytes and the index after the closing quote.
func readString(in []byte, p int, m mode) ([]byte, int, error) {
	p++ // opening quote
	out := make([]byte, 0, 16)
	for {
		if p >= len(in) {
			return nil, 0, errors.New("unterminated string")
		}
		c := in[p]
		switch {
		case c == '"':
			return out, p + 1, nil
		case c < 0x20:
			return nil, 0, fmt.Errorf("raw control character %#x in string at %d", c, p)
		case c == '\\':
			if p+1 >= len(in) {
				return nil, 0, errors.New("truncated escape")
			}
			e := in[p+1]
			p += 2
			switch e {
			case '"':
				out = append(out, '"')
			case '\\':
				out = append(out, '\\')
			case '/':
				out = append(out, '/')
			case 'b':
				out = append(out, '\b')
			case 'f':
				out = append(out, '\f')
			case 'n':
				out = append(out, '\n')
			case 'r':
				out = append(out, '\r')
			case 't':
				out = append(out, '\t')
			case 'u':
				v, ok := hex4(in, p)
				if !ok {
					return nil, 0, fmt.Errorf("bad \\u escape at %d", p)
				}
				p += 4
				if v >= 0xD800 && v <= 0xDBFF {
					// high surrogate: needs \uDC00..DFFF
					if p+6 <= len(in) && in[p] == '\\' && in[p+1] == 'u' {
						if lo, ok := hex4(in, p+2); ok && lo >= 0xDC00 && lo <= 0xDFFF {
							p += 6
							cp := 0x10000 + (v-0xD800)<<10 + (lo - 0xDC00)
							out = utf8.AppendRune(out, rune(cp))
							continue
						}
					}
					if !m.lenient {
						return nil, 0, fmt.Errorf("lone high surrogate at %d", p)
					}
					out = append(out, 0xEF, 0xBF, 0xBD)
				} else if v >= 0xDC00 && v <= 0xDFFF {
					if !m.lenient {
						return nil, 0, fmt.Errorf("lone low surrogate at %d", p)
					}
					out = append(out, 0xEF, 0xBF, 0xBD)
				} else {
					out = utf8.AppendRune(out, rune(v))
				}
			default:
				return nil, 0, fmt.Errorf("bad escape \\%c at %d", e, p-1)
			}
		case c < 0x80:
			out = append(out, c)
			p++
		default:
			if m.lenient {
				out = append(out, c)
				p++
				continue
			}
			r, sz := utf8.DecodeRune(in[p:])
			if r == utf8.RuneError && sz <= 1 {
				return nil, 0, fmt.Errorf("invalid UTF-8 at %d", p)
			}
			out = append(out, in[p:p+sz]...)
			p += sz
		}
	}
}

// scanNumber checks the RFC 8259 number grammar at in[p:]; returns the end index.
func scanNumber(in []byte, p int) (int, error) {
	s := p
	if p < len(in) && in[p] == '-' {
		p++
	}
	if p >= len(in) {
		return 0, errors.New("truncated number")
	}
	if in[p] == '0' {
		p++
	} else if in[p] >= '1' && in[p] <= '9' {
		for p < len(in) && in[p] >= '0' && in[p] <= '9' {
			p++
		}
	} else {
		return 0, fmt.Errorf("bad number at %d", s)
	}
	if p < len(in) && in[p] == '.' {
		p++
		d := 0
		for p < len(in) && in[p] >= '0' && in[p] <= '9' {
			p++
			d++
		}
		if d == 0 {
			return 0, fmt.Errorf("no digits after decimal point at %d", s)
		}
	}
	if p < len(in) && (in[p] == 'e' || in[p] == 'E') {
		p++
		if p < len(in) && (in[p] == '+' || in[p] == '-') {
			p++
		}
		d := 0
		for p < len(in) && in[p] >= '0' && in[p] <= '9' {
			p++
			d++
		}
		if d == 0 {
			return 0, fmt.Errorf("no digits in exponent at %d", s)
		}
	}
	// a number must be followed by a delimiter (structural, white space or end)
	if p < len(in) {
		switch in[p] {
		case ',', ']', '}', ' ', '\t', '\n', '\r', ':', '"', '[', '{':
			// ':' '"' '[' '{' are not legal followers in the grammar, but the *token* ends here; the caller's
			// separator logic rejects them. Anything else (letters, digits, '.', '+', '-', NUL, ...) is a malformed token.
		default:
			return 0, fmt.Errorf("malformed number token at %d", s)
		}
	}
	return p, nil
}

// ValidNumberLiteral reports whether s is exactly one RFC 8259 number.
func ValidNumberLiteral(s string) bool {
	n, err := scanNumber([]byte(s), 0)
	return err == nil && n == len(s)
}

// decompose splits a grammar-valid literal: sign, digit string without leading zeros (may be empty for zero), and
// decimal exponent such that value = 0.d1d2d3... x 10^adj  (adj = adjusted exponent).
func decompose(lit string) (neg bool, digits string, exp10 int64, expHuge int) {
	i := 0
	if lit[0] == '-' {
		neg = true
		i++
	}
	var ds []byte
	pointSeen := false
	fracDigits := int64(0)
	for ; i < len(lit); i++ {
		c := lit[i]
		if c == '.' {
			pointSeen = true
			continue
		}
		if c == 'e' || c == 'E' {
			break
		}
		ds = append(ds, c)
		if pointSeen {
			fracDigits++
		}
	}
	e := int64(0)
	if i < len(lit) {
		es := lit[i+1:]
		v, err := strconv.ParseInt(es, 10, 64)
		if err != nil {
			// out of int64 range: hugely positive or negative
			if es[0] == '-' {
				expHuge = -1
			} else {
				expHuge = 1
			}
		}
		e = v
		// astronomically large exponents (still inside int64) are treated like the out-of-range ones, so that the
		// arithmetic below cannot wrap around
		if v > 1<<40 {
			expHuge, e = 1, 0
		} else if v < -(1 << 40) {
			expHuge, e = -1, 0
		}
	}
	// strip leading zeros
	j := 0
	for j < len(ds) && ds[j] == '0' {
		j++
	}
	ds = ds[j:]
	// strip trailing zeros (adjust exponent)
	k := len(ds)
	tz := int64(0)
	for k > 0 && ds[k-1] == '0' {
		k--
		tz++
	}
	ds = ds[:k]
	// value = ds x 10^(e - fracDigits + tz)
	return neg, string(ds), e - fracDigits + tz, expHuge
}

var (
	maxFinite = new(big.Rat).SetFloat64(math.MaxFloat64)
	infThresh *big.Rat // values >= this round to +Inf
	ratTen    = big.NewInt(10)
)

func init() {
	// halfway between MaxFloat64 and 2^1024
	two1024 := new(big.Int).Lsh(big.NewInt(1), 1024)
	t := new(big.Rat).SetInt(two1024)
	t.Add(t, maxFinite)
	t.Quo(t, big.NewRat(2, 1))
	infThresh = t
}

// ratOf returns the exact magnitude of digits x 10^exp (exp bounded by the callers).
func ratOf(digits string, exp int64) *big.Rat {
	n, _ := new(big.Int).SetString(digits, 10)
	r := new(big.Rat).SetInt(n)
	if exp > 0 {
		p := new(big.Int).Exp(ratTen, big.NewInt(exp), nil)
		r.Mul(r, new(big.Rat).SetInt(p))
	} else if exp < 0 {
		p := new(big.Int).Exp(ratTen, big.NewInt(-exp), nil)
		r.Quo(r, new(big.Rat).SetInt(p))
	}
	return r
}

// floatOf returns the correctly rounded float64 of a grammar-valid literal and whether it is finite.
func floatOf(lit string) (float64, bool) {
	neg, digits, exp, huge := decompose(lit)
	sign := 1.0
	if neg {
		sign = -1
	}
	if digits == "" {
		return math.Copysign(0, sign), true
	}
	if huge > 0 {
		return math.Inf(int(sign)), false
	}
	if huge < 0 {
		return math.Copysign(0, sign), true
	}
	adj := exp + int64(len(digits)) // value in [10^(adj-1), 10^adj)
	if adj > 310 {
		return math.Inf(int(sign)), false
	}
	if adj < -330 {
		return math.Copysign(0, sign), true
	}
	r := ratOf(digits, exp)
	if r.Cmp(infThresh) >= 0 {
		return math.Inf(int(sign)), false
	}
	f, _ := r.Float64()
	if math.IsInf(f, 0) {
		// Rat.Float64 rounds to Inf only at/above the threshold; be safe
		return math.Inf(int(sign)), false
	}
	return math.Copysign(f, sign), true
}

// FiniteLiteral reports whether the grammar-valid literal rounds to a finite float64.
func FiniteLiteral(lit string) bool {
	_, ok := floatOf(lit)
	return ok
}

// NumValue returns the documented exposure of a grammar-valid, finite literal:
// typ 'i' (bits = uint64(int64)), 'u' (bits = value), or 'f' (bits = Float64bits) and whether
// the overflowed-integer flag must be set.
func NumValue(lit string) (typ byte, bits uint64, flag bool, err error) {
	if !ValidNumberLiteral(lit) {
		return 0, 0, false, fmt.Errorf("not a number literal: %q", trunc(lit))
	}
	pureInt := true
	for i := 0; i < len(lit); i++ {
		if c := lit[i]; c == '.' || c == 'e' || c == 'E' {
			pureInt = false
			break
		}
	}
	if pureInt {
		n, ok := new(big.Int).SetString(lit, 10)
		if !ok {
			return 0, 0, false, fmt.Errorf("big.Int cannot read %q", trunc(lit))
		}
		if n.IsInt64() {
			return 'i', uint64(n.Int64()), false, nil
		}
		if n.Sign() >= 0 && n.IsUint64() {
			return 'u', n.Uint64(), false, nil
		}
		f, fin := floatOf(lit)
		if !fin {
			return 0, 0, false, fmt.Errorf("literal %q is not finite", trunc(lit))
		}
		return 'f', math.Float64bits(f), true, nil
	}
	f, fin := floatOf(lit)
	if !fin {
		return 0, 0, false, fmt.Errorf("literal %q is not finite", trunc(lit))
	}
	return 'f', math.Float64bits(f), false, nil
}

// ResolveNumbers fills NT/NBits/NFlag of every number node that has a literal (iterative).
func ResolveNumbers(root *Node) error {
	stack := []*Node{root}
	for len(stack) > 0 {
		n := stack[len(stack)-1]
		stack = stack[:len(stack)-1]
		switch n.K {
		case Num:
			if n.NT == 0 {
				t, b, f, err := NumValue(n.Lit)
				if err != nil {
					return err
				}
				n.NT, n.NBits, n.NFlag = t, b, f
			}
		case Arr:
			stack = append(stack, n.A...)
		case Obj:
			for i := range n.O {
				stack = append(stack, n.O[i].Val)
			}
		}
	}
	return nil
}

// FloatOfLiteral returns the correctly rounded float64 of a grammar-valid literal and whether it is finite.
func FloatOfLiteral(lit string) (float64, bool) { return floatOf(lit) }
