// Package evid holds the per-shard statistics collector used by the property
// tests and the merge logic used by the driver.
package evid

import (
	"bufio"
	"encoding/binary"
	"encoding/json"
	"hash/fnv"
	"io"
	"os"
	"sort"
	"sync"
)

// ShardStats is what one test process reports about one property run.
type ShardStats struct {
	Property    string            `json:"property"`
	Shard       int               `json:"shard"`
	Evaluations int64             `json:"evaluations"`
	Nontrivial  int64             `json:"nontrivial_evals"`
	Classes     map[string]int64  `json:"classes"`
	Skipped     map[string]int64  `json:"skipped"`
	Samples     []json.RawMessage `json:"samples"`
	Notes       []string          `json:"notes"`
	Exhaustive  []string          `json:"exhaustive_subdomains"`
	Completed   []string          `json:"completed_subtests"`
}

// Collector accumulates statistics inside a test process. Safe for concurrent use.
type Collector struct {
	mu      sync.Mutex
	st      ShardStats
	hashes  map[uint64]struct{}
	maxSamp int
	sampN   int64
	rng     uint64
}

func NewCollector(prop string, shard int) *Collector {
	return &Collector{
		st:      ShardStats{Property: prop, Shard: shard, Classes: map[string]int64{}, Skipped: map[string]int64{}},
		hashes:  map[uint64]struct{}{},
		maxSamp: 6,
		rng:     0x9e3779b97f4a7c15 ^ uint64(shard+1),
	}
}

// Hash is a helper: FNV-1a 64 over the parts.
func Hash(parts ...[]byte) uint64 {
	h := fnv.New64a()
	var l [8]byte
	for _, p := range parts {
		binary.LittleEndian.PutUint64(l[:], uint64(len(p)))
		h.Write(l[:])
		h.Write(p)
	}
	return h.Sum64()
}

// Eval records one evaluated case. nontrivial says whether it meets the property's
// stated non-triviality rule; hash identifies the case for distinct counting.
func (c *Collector) Eval(nontrivial bool, hash uint64, classes ...string) {
	c.mu.Lock()
	c.st.Evaluations++
	if nontrivial {
		c.st.Nontrivial++
		c.hashes[hash] = struct{}{}
	}
	for _, cl := range classes {
		c.st.Classes[cl]++
	}
	c.mu.Unlock()
}

// Class bumps a class counter without counting an evaluation.
func (c *Collector) Class(cl string, n int64) {
	c.mu.Lock()
	c.st.Classes[cl] += n
	c.mu.Unlock()
}

func (c *Collector) Skip(reason string) {
	c.mu.Lock()
	c.st.Skipped[reason]++
	c.mu.Unlock()
}

func (c *Collector) Note(s string) {
	c.mu.Lock()
	for _, n := range c.st.Notes {
		if n == s {
			c.mu.Unlock()
			return
		}
	}
	c.st.Notes = append(c.st.Notes, s)
	c.mu.Unlock()
}

func (c *Collector) Exhaustive(sub string) {
	c.mu.Lock()
	c.st.Exhaustive = append(c.st.Exhaustive, sub)
	c.mu.Unlock()
}

func (c *Collector) Completed(sub string) {
	c.mu.Lock()
	c.st.Completed = append(c.st.Completed, sub)
	c.mu.Unlock()
}

// Sample offers a case for the sample list (reservoir of maxSamp; the first is always kept).
func (c *Collector) Sample(mk func() interface{}) {
	c.mu.Lock()
	defer c.mu.Unlock()
	c.sampN++
	idx := -1
	if len(c.st.Samples) < c.maxSamp {
		idx = len(c.st.Samples)
		c.st.Samples = append(c.st.Samples, nil)
	} else {
		// xorshift; deterministic per shard
		c.rng ^= c.rng << 13
		c.rng ^= c.rng >> 7
		c.rng ^= c.rng << 17
		if j := int64(c.rng % uint64(c.sampN)); j < int64(c.maxSamp) && j > 0 {
			idx = int(j)
		}
	}
	if idx < 0 {
		return
	}
	b, err := json.Marshal(mk())
	if err != nil {
		b, _ = json.Marshal(err.Error())
	}
	if len(b) > 2000 {
		b, _ = json.Marshal(map[string]interface{}{"truncated_json_prefix": string(b[:1500]), "full_len": len(b)})
	}
	c.st.Samples[idx] = b
}

// Flush writes <base>.stats.json and <base>.hashes.
func (c *Collector) Flush(base string) error {
	c.mu.Lock()
	defer c.mu.Unlock()
	b, err := json.Marshal(&c.st)
	if err != nil {
		return err
	}
	if err := os.WriteFile(base+".stats.json", b, 0o644); err != nil {
		return err
	}
	f, err := os.Create(base + ".hashes")
	if err != nil {
		return err
	}
	w := bufio.NewWriter(f)
	var tmp [8]byte
	for h := range c.hashes {
		binary.LittleEndian.PutUint64(tmp[:], h)
		w.Write(tmp[:])
	}
	if err := w.Flush(); err != nil {
		f.Close()
		return err
	}
	return f.Close()
}

// Merged is the union of several shards.
type Merged struct {
	Evaluations int64
	Nontrivial  int64
	Distinct    int64
	Classes     map[string]int64
	Skipped     map[string]int64
	Samples     []json.RawMessage
	Notes       []string
	Exhaustive  []string
	Completed   []string
	Shards      int
}

// Merge reads the given base paths (without extension); missing files are skipped.
func Merge(bases []string) (*Merged, error) {
	m := &Merged{Classes: map[string]int64{}, Skipped: map[string]int64{}}
	set := map[uint64]struct{}{}
	seenNote := map[string]bool{}
	seenEx := map[string]bool{}
	for _, base := range bases {
		b, err := os.ReadFile(base + ".stats.json")
		if err != nil {
			continue
		}
		var st ShardStats
		if err := json.Unmarshal(b, &st); err != nil {
			return nil, err
		}
		m.Shards++
		m.Evaluations += st.Evaluations
		m.Nontrivial += st.Nontrivial
		for k, v := range st.Classes {
			m.Classes[k] += v
		}
		for k, v := range st.Skipped {
			m.Skipped[k] += v
		}
		for i, s := range st.Samples {
			if i < 2 || len(m.Samples) < 12 {
				m.Samples = append(m.Samples, s)
			}
		}
		for _, n := range st.Notes {
			if !seenNote[n] {
				seenNote[n] = true
				m.Notes = append(m.Notes, n)
			}
		}
		for _, n := range st.Exhaustive {
			if !seenEx[n] {
				seenEx[n] = true
				m.Exhaustive = append(m.Exhaustive, n)
			}
		}
		m.Completed = append(m.Completed, st.Completed...)
		f, err := os.Open(base + ".hashes")
		if err != nil {
			continue
		}
		r := bufio.NewReaderSize(f, 1<<20)
		var tmp [8]byte
		for {
			if _, err := io.ReadFull(r, tmp[:]); err != nil {
				break
			}
			set[binary.LittleEndian.Uint64(tmp[:])] = struct{}{}
		}
		f.Close()
	}
	m.Distinct = int64(len(set))
	if len(m.Samples) > 16 {
		m.Samples = m.Samples[:16]
	}
	sort.Strings(m.Notes)
	sort.Strings(m.Exhaustive)
	sort.Strings(m.Completed)
	return m, nil
}
