module verifharness

go 1.23

toolchain go1.23.5

require (
	github.com/klauspost/compress v1.18.0
	github.com/klauspost/cpuid/v2 v2.2.10
	github.com/minio/simdjson-go v0.0.0
	pgregory.net/rapid v1.3.0
)

require golang.org/x/sys v0.30.0 // indirect

replace github.com/minio/simdjson-go => /repo
