#!/usr/bin/env python3
"""tools_mkreplay.py PROP KIND NAME MSG JSONCASE  -> replays/PROP-NAME.json (bytes fields given as {"$b":"python-escaped"} )"""
import sys, json, base64, codecs
def conv(x):
    if isinstance(x, dict):
        if set(x.keys()) == {"$b"}:
            return base64.b64encode(codecs.escape_decode(x["$b"].encode('latin1'))[0]).decode()
        return {k: conv(v) for k, v in x.items()}
    if isinstance(x, list):
        return [conv(v) for v in x]
    return x
prop, kind, name, msg, case = sys.argv[1:6]
out = {"property": prop, "kind": kind, "msg": msg, "case": conv(json.loads(case))}
json.dump(out, open(f"replays/{prop}-{name}.json", "w"), indent=1)
