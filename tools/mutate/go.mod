module mutate

go 1.23
