// mutate lists or applies single-token mutants of a Go source file.
//
//	mutate list <file.go>              prints "<index>\t<line>\t<kind>\t<old> -> <new>" for every mutation site
//	mutate apply <file.go> <index>     rewrites the file in place with mutant <index> applied
//
// Operators: relational (< <= > >= == !=), && <-> ||, + <-> - (binary), integer literals n -> n+1 (small n only),
// "i++" <-> "i--". Sites inside functions whose name contains "Debug", in verif hook files and in lines holding a
// panic(...) or a fmt.Print are skipped. Used by tools/mutate/run.sh for sampled mutation runs (DESIGN section 15).
package main

import (
	"fmt"
	"go/scanner"
	"go/token"
	"os"
	"strconv"
	"strings"
)

type site struct {
	off, end int
	line     int
	kind     string
	old, new string
}

func sites(src []byte, name string) []site {
	fset := token.NewFileSet()
	f := fset.AddFile(name, fset.Base(), len(src))
	var s scanner.Scanner
	s.Init(f, src, nil, 0)
	lines := strings.Split(string(src), "\n")
	var out []site
	prev := token.ILLEGAL
	depth := 0
	skipFunc := false
	funcDepth := -1
	pendingFunc := false
	for {
		pos, tok, lit := s.Scan()
		if tok == token.EOF {
			break
		}
		off := f.Offset(pos)
		line := f.Line(pos)
		switch tok {
		case token.FUNC:
			if depth == 0 {
				pendingFunc = true
				skipFunc = false
			}
		case token.IDENT:
			if pendingFunc && depth == 0 && (strings.Contains(lit, "Debug") || strings.HasPrefix(lit, "Verif") || strings.HasPrefix(lit, "verif")) {
				skipFunc = true
			}
		case token.LBRACE:
			if pendingFunc && depth == 0 {
				funcDepth = depth
				pendingFunc = false
			}
			depth++
		case token.RBRACE:
			depth--
			if depth == funcDepth {
				funcDepth = -1
				skipFunc = false
			}
		}
		lt := ""
		if line-1 < len(lines) {
			lt = lines[line-1]
		}
		skipLine := strings.Contains(lt, "panic(") || strings.Contains(lt, "fmt.Print") || strings.Contains(lt, "verif")
		add := func(kind, old, nw string) {
			if depth > 0 && !skipFunc && !skipLine {
				out = append(out, site{off, off + len(old), line, kind, old, nw})
			}
		}
		switch tok {
		case token.LSS:
			add("rel", "<", "<=")
		case token.LEQ:
			add("rel", "<=", "<")
		case token.GTR:
			add("rel", ">", ">=")
		case token.GEQ:
			add("rel", ">=", ">")
		case token.EQL:
			add("rel", "==", "!=")
		case token.NEQ:
			add("rel", "!=", "==")
		case token.LAND:
			add("logic", "&&", "||")
		case token.LOR:
			add("logic", "||", "&&")
		case token.ADD:
			if prev == token.IDENT || prev == token.INT || prev == token.RPAREN || prev == token.RBRACK {
				add("arith", "+", "-")
			}
		case token.SUB:
			if prev == token.IDENT || prev == token.INT || prev == token.RPAREN || prev == token.RBRACK {
				add("arith", "-", "+")
			}
		case token.INC:
			add("incdec", "++", "--")
		case token.INT:
			// (constants in package-level tables are left alone: their entries are mostly "non-zero" flags)
			if n, err := strconv.ParseInt(lit, 0, 64); err == nil && n >= 0 && n <= 64 && !strings.HasPrefix(lit, "0x") && funcDepth != -1 {
				add("const", lit, strconv.FormatInt(n+1, 10))
			}
		}
		prev = tok
	}
	return out
}

func main() {
	if len(os.Args) < 3 {
		fmt.Fprintln(os.Stderr, "usage: mutate list <file> | mutate apply <file> <index>")
		os.Exit(2)
	}
	src, err := os.ReadFile(os.Args[2])
	if err != nil {
		fmt.Fprintln(os.Stderr, err)
		os.Exit(2)
	}
	ss := sites(src, os.Args[2])
	switch os.Args[1] {
	case "list":
		for i, s := range ss {
			fmt.Printf("%d\t%d\t%s\t%s -> %s\n", i, s.line, s.kind, s.old, s.new)
		}
	case "apply":
		i, err := strconv.Atoi(os.Args[3])
		if err != nil || i < 0 || i >= len(ss) {
			fmt.Fprintln(os.Stderr, "bad index")
			os.Exit(2)
		}
		s := ss[i]
		out := append([]byte{}, src[:s.off]...)
		out = append(out, s.new...)
		out = append(out, src[s.end:]...)
		if err := os.WriteFile(os.Args[2], out, 0o644); err != nil {
			fmt.Fprintln(os.Stderr, err)
			os.Exit(2)
		}
		fmt.Printf("line %d: %s -> %s\n", s.line, s.old, s.new)
	}
}
