#!/bin/bash
# run.sh <lane> <file.go> <index> : applies one mutant in the lane's scratch worktree of /repo and reports
#   INVALID (does not build) | TESTS (killed by the existing suite) | CAUGHT <check> | SURVIVED
# Needs: /tmp/scratch/mutate (built from this directory), /tmp/scratch/cur<lane> (worktree of /repo),
#        /tmp/scratch/snap<lane> (worktree of /verif with ./setup.sh run). Results are appended to /tmp/scratch/mut/results.tsv
set -u
export GOFLAGS=-mod=mod GOPROXY=off GOSUMDB=off GOTOOLCHAIN=local
L=$1; F=$2; I=$3
WT=/tmp/scratch/cur$L; SNAP=/tmp/scratch/snap$L
mkdir -p /tmp/scratch/mut
case $F in
  parsed_json.go) CHECKS="C13 C12 C02 C10 C14 C16 C05 C19";;
  parsed_object.go) CHECKS="C12 C14 C10 C02 C19";;
  parsed_array.go) CHECKS="C12 C14 C10 C19";;
  parsed_serialize.go) CHECKS="C11 C15 C17 C19 C20";;
  stage2_build_tape_amd64.go) CHECKS="C01 C02 C08 C03 C17 C05";;
  stage1_find_marks_amd64.go) CHECKS="C01 C06 C07 C08 C05";;
  parse_number.go) CHECKS="C03 C01";;
  parse_json_amd64.go) CHECKS="C07 C15 C01 C05";;
  simdjson_amd64.go) CHECKS="C08 C09 C15 C16 C20";;
  parse_string_amd64.go) CHECKS="C04 C02 C05";;
  appendfloat_f.go|ftoaryu.go) CHECKS="C18 C10";;
  *) CHECKS="C01 C02";;
esac
cd $WT && git checkout -q --detach "$(git -C /repo rev-parse HEAD)" && git checkout -q -- . && git clean -fdq
DESC=$(/tmp/scratch/mutate apply $WT/$F $I) || { echo "bad index"; exit 2; }
res="SURVIVED"; by=""
if ! go build ./... >/dev/null 2>&1 || ! go vet -tags verif . >/dev/null 2>&1; then
  if ! go build ./... >/dev/null 2>&1; then res="INVALID"; fi
fi
if [ "$res" != "INVALID" ]; then
  # "the existing tests" = the 30 tests of the pinned baseline (the rest of the upstream suite never runs there: the
  # test binary dies in TestNdjsonCountWhere2, which needs the network)
  if ! go test -mod=mod -vet=off -count=1 -timeout 10m -run '^(TestExcludeNewlineDelimitersWithinQuotes|TestFinalizeStructurals|TestFindNewlineDelimiters|TestFindOddBackslashSequences|TestFindQuoteMaskAndBits|TestFindStructuralBits|TestFindStructuralBitsLoop|TestFindStructuralBitsWhitespacePadding|TestFindWhitespaceAndStructurals|TestFlattenBitsIncremental|TestNdjsonCountWhere)$' . >/dev/null 2>&1; then
    res="TESTS"
  else
    for c in $CHECKS; do
      (cd $SNAP && VERIF_ROOT=$SNAP VERIF_WORK=$SNAP/work/alt VERIF_REPO=$WT bin/check $c quick > /tmp/scratch/mut/last_$L.log 2>&1); e=$?
      if [ $e = 1 ]; then res="CAUGHT"; by=$c; break; fi
      if [ $e = 2 ]; then by="$by$c:exit2 "; fi
    done
  fi
fi
printf "%s\t%s\t%s\t%s\t%s\n" "$F" "$I" "$res" "$by" "$DESC" >> /tmp/scratch/mut/results.tsv
cd $WT && git checkout -q -- . && git clean -fdq
rm -rf $SNAP/replays/found
