#!/usr/bin/env python3
"""Regenerates MANIFEST.json from the table below (kept in one place so it is always valid)."""
import json
CLAIMED = json.load(open('manifest_claims.json'))
props = [json.loads(l) for l in open('properties.jsonl')]
checks, na = [], []
for p in props:
    pid = p['id']
    c = CLAIMED.get(pid)
    if not c or not c.get('claimed'):
        na.append({"property_id": pid, "reason": (c or {}).get('reason', 'check not built yet (work in progress); the design in DESIGN.md section 4 applies')})
        continue
    checks.append({
        "property_id": pid,
        "quick_cmd": f"bin/check {pid} quick",
        "thorough_cmd": f"bin/check {pid} thorough",
        "evidence_file": f"/verif/evidence/{pid}.json",
        "replay_cmd_template": "bin/check --replay {path}",
        "engine": "pbt-harness",
        "level_claimed": {"category": "exploration", "text": c['text'], "design_ref": f"DESIGN.md section 4, {pid}"},
        "level_note": c['note'],
        "technique": c['technique'],
    })
m = {
    "version": 1,
    "setup_cmd": "./setup.sh",
    "hooks": {
        "guard": "verif",
        "enable": "go test -c -tags verif (module replace github.com/minio/simdjson-go => /repo)",
        "baseline_off_cmd": "cd /repo && go test -mod=mod -json -vet=off -count=1 -timeout 25m ./...",
        "source_commits": json.load(open('manifest_hooks.json')),
        "add_only": True,
    },
    "engines": [{"name": "pbt-harness", "path": "harness/", "serves_properties": [c['property_id'] for c in checks],
                 "kind_free_text": "Go test binaries (pgregory.net/rapid v1.3.0 generators and state machines, deterministic enumerations, native go fuzz in the thorough tier) run as 16 seeded shards by bin/check, which replays failures in a fresh process, merges statistics and writes evidence"}],
    "checks": checks,
    "notes": open('manifest_notes.txt').read(),
    "not_applicable": na,
}
json.dump(m, open('MANIFEST.json', 'w'), indent=1)
print("claimed", len(checks), "not_applicable", len(na))
