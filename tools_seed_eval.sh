#!/bin/bash
# tools_seed_eval.sh <PROP> <patch.diff> <demo_test.go> <demoTestName> [checks...]
# Applies a seeded change to the scratch worktree /tmp/scratch/cur (a worktree of /repo at HEAD), confirms that it
# compiles, that the existing suite passes, that the demonstration fails with it and passes without it, then runs
# the given checks (default: the property's own check) in the quick tier against it. Always reverts.
set -u
export GOFLAGS=-mod=mod GOPROXY=off GOSUMDB=off GOTOOLCHAIN=local
PROP=$1; PATCH=$2; DEMO=$3; DEMONAME=$4; shift 4
CHECKS=${*:-$PROP}
WT=${WT:-/tmp/scratch/cur}
cd $WT || exit 2
git checkout -q --detach "$(git -C /repo rev-parse HEAD)" && git checkout -q -- . && git clean -fdq
echo "== demo on the clean tree (must pass)"
cp "$DEMO" $WT/zz_seed_demo_test.go
go test -mod=mod -vet=off -count=1 -tags verif -run "^${DEMONAME}\$" . 2>&1 | tail -3
rm -f $WT/zz_seed_demo_test.go
echo "== apply"
git apply "$PATCH" || { echo "PATCH DOES NOT APPLY"; exit 2; }
go build ./... && go build -tags verif ./... || { echo "DOES NOT BUILD"; git checkout -q -- .; exit 2; }
echo "== existing suite with the change (must pass)"
go test -mod=mod -vet=off -count=1 -skip TestNdjsonCountWhere2 ./... 2>&1 | tail -3
echo "== demo with the change (must fail)"
cp "$DEMO" $WT/zz_seed_demo_test.go
go test -mod=mod -vet=off -count=1 -tags verif -run "^${DEMONAME}\$" . 2>&1 | tail -4
rm -f $WT/zz_seed_demo_test.go
for c in $CHECKS; do
  echo "== check $c quick against the change"
  (cd ${SNAP:-/verif} && VERIF_ROOT=${SNAP:-/verif} VERIF_WORK=${SNAP:-/verif}/work/alt VERIF_REPO=$WT ${CHECKBIN:-bin/check} $c quick > ${LOGDIR:-/tmp/scratch}/seed_$c.log 2>&1; echo "exit=$?"; grep -c '^VIOLATION' ${LOGDIR:-/tmp/scratch}/seed_$c.log; grep -A3 'failure (shard' ${LOGDIR:-/tmp/scratch}/seed_$c.log | cut -c1-500 | head -8; tail -1 ${LOGDIR:-/tmp/scratch}/seed_$c.log | cut -c1-200)
done
cd $WT && git checkout -q -- . && git clean -fdq
rm -rf ${SNAP:-/verif}/replays/found
