#!/bin/sh
# Build the driver and warm the build cache; offline, from files on disk only.
set -e
cd "$(dirname "$0")"
export GOFLAGS=-mod=mod GOPROXY=off GOSUMDB=off GOTOOLCHAIN=local
mkdir -p bin work/bin evidence
(cd harness && go build -o ../bin/check ./cmd/check)
(cd harness && go test -c -vet=off -tags verif -o ../work/bin/props.test ./props)
echo setup ok
